#!/bin/bash
# MANIFEST.setup_cmd: offline; installs icontract next to the harness (git-ignored .deps)
HERE="$(cd "$(dirname "${BASH_SOURCE[0]}")" && pwd)"
cd "$HERE" || exit 1
if [ ! -d .deps/icontract ]; then
  /venv/bin/pip install -q --no-index --find-links /opt/veriftools/wheels --target .deps icontract >/dev/null 2>&1 || { echo "icontract install failed"; exit 1; }
fi
PYTHONPATH="$HERE" /venv/bin/python -c "import vmon.env; vmon.env.bootstrap(); import icontract, ladim; print('setup ok: icontract', icontract.__version__, 'ladim at', ladim.__file__)"
