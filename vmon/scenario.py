"""Scenario = JSON-serialisable {world, run} spec -> files on disk + ladim configuration,
executed through the real ladim.main.main.  Also the reader for the output files."""

from __future__ import annotations

import glob
import logging
import os
import re
import traceback
from dataclasses import dataclass, field
from pathlib import Path
from typing import Any

import numpy as np
import yaml
from netCDF4 import Dataset

from vmon import world as W
from vmon.env import VERIF

ISO = "%Y-%m-%dT%H:%M:%S"


class HarnessError(Exception):
    """A bug or impossibility in the verification harness itself (never a verdict)."""


def iso(t) -> str:
    return str(np.datetime64(t, "s"))


def tadd(t, seconds: int):
    return np.datetime64(t, "s") + np.timedelta64(int(seconds), "s")


# ----------------------------------------------------------------------------
# release file
# ----------------------------------------------------------------------------


def write_release(path: Path, columns: list[str], rows: list[list[Any]], header: bool) -> None:
    with open(path, "w", encoding="utf-8") as f:
        if header:
            f.write(" ".join(columns) + "\n")
        for r in rows:
            f.write(" ".join(_fmt(x) for x in r) + "\n")


def _fmt(x: Any) -> str:
    if isinstance(x, float):
        return repr(x)
    return str(x)


# ----------------------------------------------------------------------------
# configuration
# ----------------------------------------------------------------------------

NCTYPE = {"float": "f8", "int": "i4", "time": "f8"}


def varconf(datatype: str, **attrs: Any) -> dict[str, Any]:
    return dict(encoding=dict(datatype=datatype), attributes=dict(attrs))


def build_config(run: dict[str, Any], wd: Path, world: dict[str, Any] | None) -> dict[str, Any]:
    """Version-2 configuration dictionary for a run spec (see props/* for the vocabulary)."""
    conf: dict[str, Any] = dict(version=2)
    t = dict(start=run["start"], stop=run["stop"], dt=run["dt"])
    if run.get("reversed"):
        t["time_reversal"] = True
    if run.get("reference"):
        t["reference"] = run["reference"]
    conf["time"] = t

    if run.get("grid") is not None:
        conf["grid"] = dict(run["grid"])
    else:
        conf["grid"] = dict(module="ladim.ROMS", filename=str(world["gridfile"]))
        if run.get("subgrid"):
            conf["grid"]["subgrid"] = list(run["subgrid"])
    if run.get("forcing") is not None:
        conf["forcing"] = dict(run["forcing"])
    else:
        conf["forcing"] = dict(module="ladim.ROMS", filename=world["pattern"] if len(world["files"]) > 1 else str(world["files"][0]))
        if run.get("extra_forcing"):
            conf["forcing"]["extra_forcing"] = list(run["extra_forcing"])

    trk = dict(advection=run.get("advection", "EF"))
    for k in ("diffusion", "vertdiff", "vertical_advection"):
        if k in run:
            trk[k] = run[k]
    conf["tracker"] = trk

    rel = run["release"]
    rfile = wd / rel.get("file", "release.rls")
    if "rows" in rel:
        write_release(rfile, rel["columns"], rel["rows"], rel.get("header", True))
    r: dict[str, Any] = dict(release_file=str(rfile))
    if not rel.get("header", True):
        r["names"] = list(rel["columns"])
    if rel.get("continuous"):
        r["continuous"] = True
        r["release_frequency"] = rel["freq"]
    elif rel.get("idle_frequency"):
        # a discrete release that still carries a release_frequency entry (left over from a continuous set-up); `continuous` false or absent
        r["release_frequency"] = rel["idle_frequency"]
        if rel.get("continuous_key_false"):
            r["continuous"] = False
    conf["release"] = r

    st = run.get("state", {})
    conf["state"] = dict(
        instance_variables=dict(st.get("instance_variables", {})),
        particle_variables=dict(st.get("particle_variables", {})),
        default_values=dict(st.get("default_values", {})),
    )
    conf["ibm"] = dict(run.get("ibm", {}))

    out = run["output"]
    o: dict[str, Any] = dict(
        filename=str(wd / out.get("filename", "out.nc")),
        output_period=out["period"],
        # a value is a datatype, or a mapping with the datatype and attributes (e.g. scale_factor for a packed variable)
        instance_variables={k: (varconf(v) if isinstance(v, str) else varconf(v["datatype"], **{a: b for a, b in v.items() if a != "datatype"}))
                            for k, v in out.get("instance", {"pid": "i4", "X": "f8", "Y": "f8", "Z": "f8"}).items()},
    )
    pv = {}
    for k, v in out.get("particle", {}).items():
        if st.get("particle_variables", {}).get(k) == "time":
            pv[k] = varconf(v, long_name=k, units="seconds since reference_time")
        else:
            pv[k] = varconf(v, long_name=k)
    if pv:
        o["particle_variables"] = pv
    if out.get("numrec"):
        o["numrec"] = out["numrec"]
    if out.get("layout"):
        o["layout"] = out["layout"]
    if "skip_initial" in out:
        o["skip_initial"] = out["skip_initial"]
    if out.get("ncargs"):
        o["ncargs"] = dict(out["ncargs"])
    conf["output"] = o

    if run.get("warm_start"):
        conf["warm_start"] = dict(run["warm_start"])
    return conf


def write_yaml(conf: dict[str, Any], path: Path) -> None:
    with open(path, "w", encoding="utf-8") as f:
        yaml.safe_dump(conf, f, sort_keys=False)


# ----------------------------------------------------------------------------
# running
# ----------------------------------------------------------------------------


@dataclass
class RunResult:
    status: str  # "ok" | "exit" (SystemExit) | "error" (other exception in ladim)
    code: Any = None
    exc: str = ""
    tb: str = ""
    outputs: list[Path] = field(default_factory=list)

    @property
    def ok(self) -> bool:
        return self.status == "ok"


def _is_harness_tb(tb) -> bool:
    """True if the innermost frame of the traceback is harness code (plug-in or hook)."""
    frames = traceback.extract_tb(tb)
    if not frames:
        return False
    last = frames[-1].filename
    return str(VERIF) in last or "vmon_plugin" in last


def run_ladim(conf_file: Path, cwd: Path | None = None) -> RunResult:
    """Execute the real ladim.main.main on a configuration file."""
    from ladim.main import main  # noqa: PLC0415

    old = os.getcwd()
    if cwd is not None:
        os.chdir(cwd)
    root = logging.getLogger()
    if not root.handlers:  # keep ladim's (rich) log handler from being installed: silence only
        root.addHandler(logging.NullHandler())
    try:
        main(str(conf_file), loglevel=logging.CRITICAL + 10)
    except SystemExit as e:
        return RunResult("exit", code=e.code, exc=f"SystemExit({e.code})", tb=traceback.format_exc(limit=-6))
    except HarnessError:
        raise
    except Exception as e:  # noqa: BLE001
        if getattr(e, "_vmon_harness", False) or (not getattr(e, "_vmon_target", False) and _is_harness_tb(e.__traceback__)):
            raise HarnessError(f"exception in harness code during ladim run: {e!r}\n{traceback.format_exc()}") from e
        return RunResult("error", exc=f"{type(e).__name__}: {e}", tb=traceback.format_exc(limit=-8))
    finally:
        os.chdir(old)
    return RunResult("ok")


def to_v1(conf: dict[str, Any]) -> dict[str, Any]:
    """The legacy (version 1) spelling of a simple version-2 configuration built by build_config (forward time, stock ROMS modules).
    The release file's header line is moved into the configuration (v1 names the columns there)."""
    rf = Path(conf["release"]["release_file"])
    names = conf["release"].get("names")
    if not names:
        lines = rf.read_text().splitlines()
        names = lines[0].split()
        rf.write_text("\n".join(lines[1:]) + "\n")
    out = conf["output"]
    ivars = list(out["instance_variables"])
    pvars = list(out.get("particle_variables") or {})
    v1: dict[str, Any] = dict(
        time_control=dict(start_time=conf["time"]["start"], stop_time=conf["time"]["stop"]),
        files=dict(particle_release_file=str(rf), output_file=str(out["filename"])),
        gridforce=dict(module="ladim1.gridforce.ROMS", input_file=str(conf["forcing"]["filename"]), gridfile=str(conf["grid"]["filename"])),
        numerics=dict(dt=conf["time"]["dt"], advection=conf["tracker"].get("advection", "EF"), diffusion=conf["tracker"].get("diffusion", 0.0)),
        particle_release=dict(variables=list(names), release_time="time", particle_variables=pvars),
        output_variables=dict(outper=out["output_period"] if isinstance(out["output_period"], list) else [int(out["output_period"]), "s"], format="NETCDF4", instance=ivars, particle=pvars))
    if conf["time"].get("reference"):
        v1["time_control"]["reference_time"] = conf["time"]["reference"]
    if conf["grid"].get("subgrid"):
        v1["gridforce"]["subgrid"] = conf["grid"]["subgrid"]
    if conf["release"].get("continuous"):
        v1["particle_release"].update(release_type="continuous", release_frequency=conf["release"]["release_frequency"])
    for k, vc in list(out["instance_variables"].items()) + list((out.get("particle_variables") or {}).items()):
        v1["output_variables"][k] = dict(ncformat=vc["encoding"]["datatype"], **(vc.get("attributes") or {"long_name": k}))
    return v1


def run_two_models_alive(conf_a: Path, conf_b: Path, cwd: Path, steps_a_first: int = 2) -> RunResult:
    """Two Model objects alive in one process: A is built and stepped a little, then B is built, then both are stepped in turn and finished
    (what a script that couples or compares two simulations does).  Same error classification as run_ladim."""
    from ladim.configure import configure  # noqa: PLC0415
    from ladim.model import Model  # noqa: PLC0415

    old = os.getcwd()
    os.chdir(cwd)
    root = logging.getLogger()
    if not root.handlers:
        root.addHandler(logging.NullHandler())
    try:
        A = Model(configure(conf_a))
        na, nb = A.timer.Nsteps, None
        ia = ib = 0
        for _ in range(min(steps_a_first, na)):
            A.update()
            ia += 1
        B = Model(configure(conf_b))
        nb = B.timer.Nsteps
        while ia < na or ib < nb:
            if ia < na:
                A.update()
                ia += 1
            if ib < nb:
                B.update()
                ib += 1
        B.finish()
        A.finish()
    except SystemExit as e:
        return RunResult("exit", code=e.code, exc=f"SystemExit({e.code})", tb=traceback.format_exc(limit=-6))
    except HarnessError:
        raise
    except Exception as e:  # noqa: BLE001
        if getattr(e, "_vmon_harness", False) or (not getattr(e, "_vmon_target", False) and _is_harness_tb(e.__traceback__)):
            raise HarnessError(f"exception in harness code during ladim run: {e!r}\n{traceback.format_exc()}") from e
        return RunResult("error", exc=f"{type(e).__name__}: {e}", tb=traceback.format_exc(limit=-8))
    finally:
        os.chdir(old)
    return RunResult("ok")


def output_files(conf: dict[str, Any]) -> list[Path]:
    if "filename" not in conf.get("output", {}):
        return []
    fn = Path(conf["output"]["filename"])
    if conf["output"].get("numrec"):
        stem = fn.stem
        m = re.search(r"_(\d+)$", stem)
        base = stem[: m.start()] if m else stem
        cands = sorted(glob.glob(str(fn.parent / f"{base}_*{fn.suffix}")))
        found = [Path(c) for c in cands if re.fullmatch(re.escape(base) + r"_\d+", Path(c).stem)]
        return sorted(found, key=lambda q: int(q.stem.rsplit("_", 1)[1]))
    return [fn] if fn.exists() else []


def run_scenario(scn: dict[str, Any], wd: Path, conf_name: str = "ladim.yaml", world: dict[str, Any] | None = None,
                 tweak=None) -> tuple[RunResult, dict[str, Any], dict[str, Any]]:
    """Write world (unless given) + config, run ladim.  Returns (result, config, world)."""
    wd.mkdir(parents=True, exist_ok=True)
    if world is None and scn.get("world") is not None:
        world = W.write_world(wd / "world", scn["world"])
    conf = build_config(scn["run"], wd, world)
    if tweak is not None:
        tweak(conf)
    cf = wd / conf_name
    cf.parent.mkdir(parents=True, exist_ok=True)
    write_yaml(conf, cf)
    res = run_ladim(cf, cwd=wd)
    res.outputs = output_files(conf)
    return res, conf, world


# ----------------------------------------------------------------------------
# output reader (what a user sees)
# ----------------------------------------------------------------------------


@dataclass
class Rec:
    file: str
    idx: int
    timeval: float
    time: np.datetime64
    pid: np.ndarray
    vars: dict[str, np.ndarray]
    raw: dict[str, np.ndarray] = field(default_factory=dict)  # dense rows incl. fill


@dataclass
class OutFile:
    path: Path
    layout: str
    records: list[Rec]
    pvars: dict[str, np.ndarray]
    pvar_units: dict[str, str]
    nparticle_dim: int
    ninstance_dim: int
    counts: np.ndarray | None
    time_units: str


NAN_SEEN: list[str] = []  # non-finite values among the numbers a reader of the output gets (cleared per case by the child process)


def _note_nan(path, name: str, arr, where: str) -> None:
    a = np.asarray(arr)
    if a.dtype.kind == "f" and a.size and not np.all(np.isfinite(a)):
        NAN_SEEN.append(f"{Path(path).name}: {name} holds {int(np.sum(~np.isfinite(a)))} non-finite value(s) {where}")


def _abs_time(ref, tv: float):
    if not np.isfinite(tv) or abs(tv) > 1e15:
        return np.datetime64("NaT", "s")
    return ref + np.timedelta64(int(round(tv)), "s")


def read_outfile(path: Path) -> OutFile:
    """Read an output file exactly as the format documentation prescribes."""
    with Dataset(path) as nc:
        nc.set_auto_mask(False)
        tv = nc.variables["time"]
        units = tv.units
        ref = np.datetime64(units.split("since")[1].strip(), "s")
        times = np.array(tv[:], dtype=float)
        dense = "particle_instance" not in nc.dimensions
        ivars = [n for n, v in nc.variables.items() if v.dimensions == (("time", "particle") if dense else ("particle_instance",))]
        pvars = {n: np.array(v[:]) for n, v in nc.variables.items() if v.dimensions == ("particle",)}
        punits = {n: getattr(nc.variables[n], "units", "") for n in pvars}
        for k, a_ in pvars.items():
            _note_nan(path, k, a_, "among the particle variables")
        recs = []
        counts = None
        if not dense:
            counts = np.array(nc.variables["particle_count"][:], dtype=int)
            data = {n: np.array(nc.variables[n][:]) for n in ivars}
            for n in range(len(times)):
                start = int(np.sum(counts[:n]))
                cnt = int(counts[n])
                vars_ = {k: d[start:start + cnt] for k, d in data.items()}
                for k, a_ in vars_.items():
                    _note_nan(path, k, a_, f"in record {n}")
                recs.append(Rec(str(path), n, float(times[n]), _abs_time(ref, times[n]),
                                vars_.get("pid", np.array([], int)).astype(int), vars_))
            ninst = len(nc.dimensions["particle_instance"])
        else:
            data = {n: np.array(nc.variables[n][:]) for n in ivars}
            fill = {n: _fillvalue(nc.variables[n]) for n in ivars}
            for n in range(len(times)):
                raw = {k: d[n] for k, d in data.items()}
                key = "X" if "X" in raw else (ivars[0] if ivars else None)
                if key is None:
                    present = np.array([], int)
                else:
                    present = np.nonzero(~_isfill(raw[key], fill[key]))[0]
                vars_ = {k: r[present] for k, r in raw.items()}
                for k, a_ in vars_.items():
                    _note_nan(path, k, a_, f"in record {n} among the particles that have a position there")
                recs.append(Rec(str(path), n, float(times[n]), _abs_time(ref, times[n]),
                                present.astype(int), vars_, raw={k: (r, fill[k]) for k, r in raw.items()}))
            ninst = 0
        return OutFile(Path(path), "dense" if dense else "sparse", recs, pvars, punits,
                       len(nc.dimensions["particle"]), ninst, counts, units)


def _fillvalue(var):
    import netCDF4  # noqa: PLC0415

    fv = var.getncattr("_FillValue") if "_FillValue" in var.ncattrs() else netCDF4.default_fillvals[var.dtype.str[1:]]
    if "scale_factor" in var.ncattrs() or "add_offset" in var.ncattrs():
        # packed variable read with automatic scaling (masking is off): the fill value comes back scaled like the data
        fv = float(np.asarray(fv, var.dtype) * np.asarray(getattr(var, "scale_factor", 1.0)) + np.asarray(getattr(var, "add_offset", 0.0)))
    return fv


def _isfill(arr, fv):
    arr = np.asarray(arr)
    if isinstance(fv, float) and np.isnan(fv):
        return np.isnan(arr)
    if arr.dtype.kind == "f":
        return np.isnan(arr) | (arr == fv) | np.isclose(arr, fv, rtol=1e-12, atol=0.0)
    return arr == fv


def read_outputs(paths: list[Path]) -> list[OutFile]:
    return [read_outfile(p) for p in paths]


def all_records(files: list[OutFile]) -> list[Rec]:
    return [r for f in files for r in f.records]
