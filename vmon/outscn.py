"""Scenario family shared by C06 (faithful records) and C07 (every scheduled output time):
C04-style releases + IBM kill schedule + extra instance/particle variables, run under the
Output.write snapshot hook and checked by vmon.outcheck."""

from __future__ import annotations

from pathlib import Path
from typing import Any

import numpy as np

from vmon import common as C
from vmon import outcheck, rec
from vmon.hooks import Hooks
from vmon.scenario import read_outputs, run_scenario, tadd


def build(p: dict[str, Any]) -> dict[str, Any]:
    """p: dt, nsteps, period (steps), numrec, layout, reversed, reference (iso|None), releases [[step, n]], kills {step: [pids]|'all'},
    pvars (bool), lonlat (bool), enc ('f4'|'f8'), continuous (freq steps | 0), speed"""
    dt, nsteps, rev = p["dt"], p["nsteps"], p.get("reversed", False)
    sgn = -1 if rev else 1
    start = str(tadd(C.T0, p.get("start_offset", 0)))  # start times that are not whole multiples of the output period counted from 1970 too
    stop = str(tadd(start, sgn * nsteps * dt + sgn * p.get("extra_stop", 0)))
    lo, hi = sorted([start, stop])
    imax, jmax = 16, 12
    sp = p.get("speed", 0.0)
    w = C.still_world(lo, hi, imax=imax, jmax=jmax, N=2, lonlat=dict(kind="index", lon0=4.0, dlon=0.05, lat0=59.0, dlat=0.025),
                      vel=dict(kind="const", u=sp * 1000.0 / dt, v=-0.6 * sp * 1000.0 / dt))
    rows = []
    rid = 100
    rng = np.random.default_rng([p.get("salt", 0), 66])
    for step, n in p["releases"]:
        for _ in range(n):
            rid += 1
            rows.append([str(tadd(start, sgn * step * dt)), float(np.round(rng.uniform(5, 10), 3)), float(np.round(rng.uniform(4, 8), 3)),
                         float(np.round(rng.uniform(0, 30), 2)), rid, float(np.round(rng.uniform(0, 9), 3))])
            if p.get("pvars", True):
                rows[-1].append(str(tadd(start, -int(rng.integers(0, 10**6)))))
    cols = ["release_time", "X", "Y", "Z", "rid", "wgt"] + (["hatch"] if p.get("pvars", True) else [])
    enc = p.get("enc", "f8")
    st_i = dict(rid="int", age="float")
    st_p = {}
    out_i = dict(pid="i4", X=enc, Y=enc, Z=enc, rid="i4", age=enc)
    out_p = {}
    if p.get("pvars", True):
        st_p = dict(wgt="float", release_time="time", hatch="time")
        out_p = dict(wgt="f8", release_time="f8", hatch="f8")
        if p.get("int_pvar"):  # an integer-typed particle variable (as farmid in examples/lakselus)
            del st_i["rid"], out_i["rid"]
            st_p["rid"] = "int"
            out_p["rid"] = "i4"
    else:
        st_i["wgt"] = "float"
        out_i["wgt"] = enc
    defaults = dict(age=0.0)
    if p.get("lonlat"):
        st_i.update(lon="float", lat="float")
        defaults.update(lon=0.0, lat=0.0)
        out_i.update(lon="f8", lat="f8")
    if p.get("packed_out"):
        out_i["Z"] = dict(datatype="i2", scale_factor=0.01)  # packed output variable, as in examples/killer/dense.yaml (Z: the reader finds the particles of a dense row through X)
    if p.get("scalar"):
        # a forcing-derived instance variable in the output: the value of the particle's own cell, identified by the cell indices
        w["scalars"] = dict(temp=dict(kind="xyt", a=3.0, b=0.5, c=-0.25, e=0.0))
        st_i["temp"] = "float"
        defaults["temp"] = -99.0
        out_i["temp"] = "f8"
    # kills keyed by model time (a warm-started continuation counts its steps anew)
    kills = {str(tadd(start, sgn * int(k) * dt)): v for k, v in p.get("kills", {}).items()}
    deact = {str(tadd(start, sgn * int(k) * dt)): v for k, v in (p.get("deactivate") or {}).items()}  # switched off: alive, not moved, still reported
    rel = dict(columns=cols, rows=rows, header=True)
    if p.get("continuous"):
        rel.update(continuous=True, freq=p["continuous"] * dt)
    run = dict(start=start, stop=stop, dt=dt, reversed=rev, reference=p.get("reference"), advection="EF", release=rel,
               state=dict(instance_variables=st_i, particle_variables=st_p, default_values=defaults),
               ibm=dict(module=C.REC_IBM, kill_time=kills, deactivate_time=deact, age=True, log=False),
               output=dict(period=(f"PT{p['period'] * dt // 3600}H" if (p.get("period_iso") and (p["period"] * dt) % 3600 == 0) else p["period"] * dt), numrec=p.get("numrec", 0), layout=p.get("layout", "sparse"), instance=out_i, particle=out_p))
    if p.get("scalar"):
        run["extra_forcing"] = ["temp"]
    if p.get("filename"):
        run["output"]["filename"] = p["filename"]
    if p.get("ncargs"):
        run["output"]["ncargs"] = p["ncargs"]
    return dict(world=w, run=run)


def run_and_check(p: dict[str, Any], wd: Path) -> dict[str, Any]:
    """Returns dict(res, snaps, files, V, cnt, conf)."""
    scn = build(p)
    snaps: list[dict[str, Any]] = []
    V: list = []
    cnt: dict[str, int] = {}
    lifecycle: dict[str, int] = dict(created=0, closed=0)
    created: list[Any] = []
    rec.reset()
    with Hooks() as hk:
        from ladim.out_netcdf import Output  # noqa: PLC0415

        outcheck.snapshot_hook(hk, snaps)

        def after_create(tok, res, self):
            created.append(res)

        hk.wrap(Output, "create_netcdf", None, after_create)
        res, conf, world = run_scenario(scn, wd)
        cnt["Output.write calls"] = hk.counts["Output.write"]
        cnt["create_netcdf calls"] = hk.counts["Output.create_netcdf"]
    still_open = [d for d in created if d.isopen()]
    for d in still_open:
        d.close()
    files = []
    if res.ok:
        try:
            files = read_outputs(res.outputs)
        except Exception as e:  # noqa: BLE001
            V.append(C.viol(f"output file(s) not readable after the run: {type(e).__name__}: {e}"))
    ref = p.get("reference") or min(scn["run"]["start"], scn["run"]["stop"])
    G = world["G"] if world else None

    def xy2ll(X, Y):
        return 4.0 + 0.05 * np.asarray(X), 59.0 + 0.025 * np.asarray(Y)

    if res.ok and files:
        outcheck.check_outputs(snaps, files, conf["output"], V, cnt, ref, xy2ll=xy2ll if p.get("lonlat") else None)
    # --- optional: a warm start from the first completed file, observed by the same call-boundary monitor
    if p.get("warm") and res.ok and len(files) >= 2 and files[0].layout == "sparse" and not V and len(files[0].records) and (len(files[0].records[-1].pid) or p.get("pvars", True)):
        snaps2: list[dict[str, Any]] = []
        run2 = dict(scn["run"])
        pv = list(scn["run"]["state"]["particle_variables"])
        run2["warm_start"] = dict(filename=str(files[0].path), variables=pv + list(scn["run"]["state"]["instance_variables"]))
        run2["output"] = dict(scn["run"]["output"], filename="warm.nc", numrec=0)
        if p.get("warm_new_pvar"):
            # the continuation introduces a particle variable that is not in the restart file and is filled from its default (also for the
            # particles released - and dead - before the restart)
            import copy  # noqa: PLC0415

            run2["state"] = copy.deepcopy(scn["run"]["state"])
            run2["state"]["particle_variables"]["mark"] = "float"
            run2["state"]["default_values"]["mark"] = 1.5
            run2["warm_start"]["variables"] = run2["warm_start"]["variables"] + ["mark"]
            run2["output"]["particle"] = dict(run2["output"].get("particle") or {}, mark="f8")
        with Hooks() as hk:
            outcheck.snapshot_hook(hk, snaps2)
            res2, conf2, _w = run_scenario(dict(world=None, run=run2), wd, conf_name="warm.yaml", world=world)
        cnt["warm_runs"] = 1
        cnt["warm_runs_from_an_empty_last_record"] = int(len(files[0].records[-1].pid) == 0)
        if not res2.ok:
            V.append(C.viol(f"warm start from {files[0].path.name} did not complete: {res2.exc}", tb=res2.tb[-1200:]))
        else:
            files2 = read_outputs(res2.outputs)
            ref2 = p.get("reference") or min(str(files[0].records[-1].time), scn["run"]["stop"])
            n0 = len(V)
            outcheck.check_outputs(snaps2, files2, conf2["output"], V, cnt, ref2, xy2ll=xy2ll if p.get("lonlat") else None)
            for v_ in V[n0:]:
                v_["what"] = "warm-started run: " + v_["what"]
    _ = G
    return dict(res=res, snaps=snaps, files=files, V=V, cnt=cnt, conf=conf, still_open=len(still_open), scn=scn)
