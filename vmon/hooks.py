"""Instrumentation of the real ladim classes/functions, applied by the harness at run time
(nothing in /repo is edited).  Model.init_module looks classes up by name when a run starts,
so wrapping a method on the real class puts a recorder at that module boundary.
Every wrapper counts its evaluations: a check whose deciding hook has count 0 must not
report 'held'."""

from __future__ import annotations

from collections import Counter
from typing import Any, Callable


def _tag(e: BaseException, name: str) -> None:
    try:
        if not hasattr(e, "_vmon_harness") and not hasattr(e, "_vmon_target"):
            setattr(e, name, True)
    except Exception:  # noqa: BLE001
        pass


class Hooks:
    def __init__(self) -> None:
        self.counts: Counter = Counter()
        self._undo: list[tuple[Any, str, Any]] = []

    def wrap(self, owner: Any, name: str, before: Callable | None = None, after: Callable | None = None,
             label: str | None = None) -> None:
        orig = owner.__dict__[name] if isinstance(owner, type) and name in owner.__dict__ else getattr(owner, name)
        lab = label or f"{getattr(owner, '__name__', owner)}.{name}"
        counts = self.counts
        is_static = isinstance(orig, staticmethod)
        func = orig.__func__ if is_static else orig

        def wrapper(*args: Any, **kwargs: Any) -> Any:
            counts[lab] += 1
            try:
                token = before(*args, **kwargs) if before is not None else None
            except BaseException as e:
                _tag(e, "_vmon_harness")
                raise
            try:
                result = func(*args, **kwargs)
            except BaseException as e:
                _tag(e, "_vmon_target")  # raised by the code under test (e.g. numba IndexError has no python frame)
                raise
            if after is not None:
                try:
                    after(token, result, *args, **kwargs)
                except BaseException as e:
                    _tag(e, "_vmon_harness")
                    raise
            return result

        wrapper.__name__ = getattr(func, "__name__", name)
        wrapper.__wrapped__ = func  # type: ignore[attr-defined]
        setattr(owner, name, staticmethod(wrapper) if is_static else wrapper)
        self._undo.append((owner, name, orig))

    def restore(self) -> None:
        for owner, name, orig in reversed(self._undo):
            setattr(owner, name, orig)
        self._undo.clear()

    def __enter__(self) -> "Hooks":
        return self

    def __exit__(self, *exc: Any) -> None:
        self.restore()
