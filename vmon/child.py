"""Child process: runs a batch of cases of one property inside one interpreter."""

from __future__ import annotations

import importlib
import json
import shutil
import sys
import tempfile
import traceback
from pathlib import Path


def main() -> int:
    prop, inp, outp, workdir = sys.argv[1:5]
    from vmon import env

    env.bootstrap()
    from vmon.scenario import HarnessError

    mod = importlib.import_module(f"vmon.props.{prop}")
    items = json.loads(Path(inp).read_text())
    rc = 0
    with open(outp, "w") as out:
        for it in items:
            out.write(json.dumps({"start": it["index"]}) + "\n")
            out.flush()
            wd = Path(tempfile.mkdtemp(prefix="case_", dir=workdir))
            try:
                from vmon import scenario as _scn

                _scn.NAN_SEEN.clear()
                result = mod.run_case(it["case"], wd)
                if _scn.NAN_SEEN and not result.get("violations") and not result.get("harness_error") and not getattr(mod, "NAN_IN_OUTPUT_EXPECTED", False):
                    # comparisons of the form |a - b| > tol are blind to a missing number: no scenario of the checks writes one
                    result["violations"] = [dict(what="a number read from an output file is not finite: " + "; ".join(_scn.NAN_SEEN[:3]), detail=dict(all=_scn.NAN_SEEN[:20]))]
                if isinstance(result.get("counters"), dict):
                    result["counters"]["non_finite_output_values_seen"] = len(_scn.NAN_SEEN)
            except HarnessError as e:
                result = dict(harness_error=str(e), violations=[], situations={}, counters={})
            except (Exception, SystemExit) as e:  # noqa: BLE001  (a SystemExit escaping run_case is a harness bug, not a verdict)
                tb_ = traceback.extract_tb(e.__traceback__)
                inner = tb_[-1].filename if tb_ else ""
                if isinstance(e, Exception) and str(Path(inner)).startswith(str(env.REPO.resolve()) + "/"):
                    # raised inside the code under test while the check called it directly with a set-up of its scenario space: a verdict, not a harness fault
                    result = dict(violations=[dict(what=f"the code under test raised {type(e).__name__}: {e} ({Path(inner).name}:{tb_[-1].lineno}) on a valid set-up of this check",
                                                   detail=dict(tb=traceback.format_exc()[-1500:]))], situations={}, counters={}, nontrivial=True, key=None, sample=dict(case=it["case"]))
                else:
                    result = dict(harness_error=traceback.format_exc(), violations=[], situations={}, counters={})
            finally:
                shutil.rmtree(wd, ignore_errors=True)
            out.write(json.dumps({"index": it["index"], "result": result}, default=_default) + "\n")
            out.flush()
    return rc


def _default(o):
    import numpy as np

    if isinstance(o, (np.integer,)):
        return int(o)
    if isinstance(o, (np.floating,)):
        return float(o)
    if isinstance(o, np.bool_):
        return bool(o)
    if isinstance(o, np.ndarray):
        return o.tolist()
    if isinstance(o, (np.datetime64, np.timedelta64)):
        return str(o)
    if isinstance(o, Path):
        return str(o)
    return repr(o)


if __name__ == "__main__":
    sys.exit(main())
