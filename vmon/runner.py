"""Fan-out of cases over child processes (one subprocess.run per batch, never a Pool)."""

from __future__ import annotations

import json
import os
import shutil
import subprocess
import sys
import tempfile
import time
from concurrent.futures import ThreadPoolExecutor
from pathlib import Path
from typing import Any

from vmon.env import VERIF

NPROC = int(os.environ.get("VERIF_NPROC", str(min(16, os.cpu_count() or 4))))


def _run_batch(prop: str, batch: list[tuple[int, dict]], workroot: Path, bi: int, timeout: float,
               boundscheck: bool) -> dict[int, dict]:
    bdir = workroot / f"b{bi:03d}"
    bdir.mkdir(parents=True, exist_ok=True)
    inp = bdir / "in.json"
    outp = bdir / "out.json"
    inp.write_text(json.dumps([dict(index=i, case=c) for i, c in batch]))
    env = dict(os.environ)
    env["PYTHONPATH"] = f"{VERIF}:{env.get('PYTHONPATH', '')}"
    env["PYTHONHASHSEED"] = "0"
    env["TMPDIR"] = str(bdir)
    env["NUMBA_NUM_THREADS"] = "1"
    env["OMP_NUM_THREADS"] = "1"
    env["NUMBA_CACHE_DIR"] = str(bdir / "numba_cache")
    if boundscheck:
        env["NUMBA_BOUNDSCHECK"] = "1"
    else:
        env.pop("NUMBA_BOUNDSCHECK", None)
    cmd = [sys.executable, "-m", "vmon.child", prop, str(inp), str(outp), str(bdir)]
    log = bdir / "log.txt"
    res: dict[int, dict] = {}
    try:
        with open(log, "w") as lf:
            cp = subprocess.run(cmd, env=env, stdout=lf, stderr=subprocess.STDOUT, timeout=timeout, cwd=str(VERIF), check=False)
        rc = cp.returncode
        note = f"child exit {rc}"
    except subprocess.TimeoutExpired:
        rc = -999
        note = f"watchdog: batch exceeded {timeout:.0f}s"
    done = {}
    started = set()
    if outp.exists():
        try:
            for line in outp.read_text().splitlines():
                if line.strip():
                    d = json.loads(line)
                    if "start" in d:
                        started.add(d["start"])
                    else:
                        done[d["index"]] = d["result"]
        except Exception as e:  # noqa: BLE001
            note += f"; unreadable results: {e}"
    tail = ""
    if rc != 0:
        try:
            tail = log.read_text()[-3000:]
        except OSError:
            pass
    for i, _c in batch:
        if i in done:
            res[i] = done[i]
        elif i in started:
            kind = "watchdog" if rc == -999 else "child_died"
            res[i] = dict(inconclusive=f"{kind}: {note}", died_in_case=(rc != -999), returncode=rc, log_tail=tail,
                          violations=[], situations={}, counters={})
        else:
            res[i] = dict(not_run=True, note=note, log_tail=tail)
    shutil.rmtree(bdir, ignore_errors=True)
    return res


def run_cases(prop: str, cases: list[dict], *, timeout: float = 1500.0, boundscheck: bool = False,
              nproc: int | None = None, batches_per_proc: int = 2, min_cases_per_batch: int = 1) -> list[dict]:
    """Run cases in child processes; result i corresponds to cases[i]."""
    nproc = nproc or NPROC
    n = len(cases)
    if n == 0:
        return []
    nb = max(1, min(n // max(1, min_cases_per_batch), nproc * batches_per_proc))
    batches: list[list[tuple[int, dict]]] = [[] for _ in range(nb)]
    for i, c in enumerate(cases):
        batches[i % nb].append((i, c))
    shm = "/dev/shm" if os.access("/dev/shm", os.W_OK) else tempfile.gettempdir()  # tmpfs: nc.sync() is cheap there
    base = Path(os.environ.get("VERIF_WORK", shm))
    workroot = Path(tempfile.mkdtemp(prefix=f"vmon_{prop}_", dir=base))
    results: dict[int, dict] = {}
    t0 = time.time()
    try:
        rounds = 0
        while batches and rounds < 6:
            with ThreadPoolExecutor(max_workers=nproc) as ex:
                futs = [ex.submit(_run_batch, prop, b, workroot, rounds * 1000 + bi, timeout, boundscheck)
                        for bi, b in enumerate(batches)]
                again: list[list[tuple[int, dict]]] = []
                for f in futs:
                    r = f.result()
                    redo = [(i, cases[i]) for i, v in r.items() if v.get("not_run")]
                    results.update({i: v for i, v in r.items() if not v.get("not_run")})
                    if redo:
                        again.append(redo)
            batches = again
            rounds += 1
        for b in batches:
            for i, _c in b:
                results[i] = dict(inconclusive="not run: child kept dying before reaching this case",
                                  violations=[], situations={}, counters={})
    finally:
        shutil.rmtree(workroot, ignore_errors=True)
    _ = t0
    return [results[i] for i in range(n)]
