"""C04 Release accounting: each scheduled row yields exactly `mult` particles on time.

Monitor: exactly-once accounting over tagged release rows.  Events: every ParticleReleaser.update
(hook: model step, running clock, number of particles appended) and the first appearance of
every pid in the output file (output period = one step, still water).  Oracle: an independent
schedule computed from the table by plain loops."""

from __future__ import annotations

from pathlib import Path
from typing import Any

import numpy as np

from vmon import common as C
from vmon.hooks import Hooks
from vmon.scenario import all_records, read_outputs, run_scenario, tadd

LEVEL = "exploration"
TECHNIQUE = "runtime monitoring: exactly-once accounting of tagged release rows (release hook + output read-back) against an independent schedule"
LEVEL_TEXT = ("Real end-to-end runs of ladim.main over randomly generated release tables; a hook on ParticleReleaser.update records "
              "step, clock and number of particles of every release and the output file is read back; both are compared with a "
              "schedule computed independently by plain loops. Held = no discrepancy on the tables generated (hundreds quick, thousands thorough).")
LEVEL_NOTE = "Trusts netCDF4/pandas/numpy and the harness's own schedule oracle; says nothing about tables outside the generator's classes (times off the model time grid, unsorted tables)."
RULE = ("random release tables (1-12 rows, 1-5 distinct times on the model time grid, several rows per time, mult 0-4, "
        "rows before/at/after start and stop, extra int/float columns as instance or particle variables, release_time as "
        "time-typed particle variable, header in file or names in configuration, X/Y or lon/lat), discrete and continuous "
        "(frequency 1-4 steps), forward and reversed, still water, output every step. Non-trivial: at least two release "
        "events at different steps or rows outside the window or mult != 1; distinct by (mode, direction, step/mult pattern).")
MANDATORY = ["earlier_run_with_another_table_under_the_same_file_names", "start_time_not_a_multiple_of_dt_counted_from_1970", "warm_started_leg_with_later_releases", "continuous_file_time_with_only_mult_zero_after_a_releasing_one", "time_typed_column_with_mixed_iso_precisions", "lonlat_position_on_off_diagonal_subgrid", "integer_column_beyond_2_to_53", "discrete_release_with_frequency_entry", "file_with_XY_and_lonlat", "table_with_17_or_more_rows_several_per_time", "release_after_particles_were_removed", "discrete_forward", "discrete_reversed", "continuous_forward", "continuous_reversed",
             "row_before_start", "row_at_or_after_stop", "mult_zero", "mult_gt1", "several_rows_per_time", "lonlat_position",
             "names_in_config", "particle_variable_column", "release_hook_events", "time_typed_column_values", "column_with_configured_default"]
ASSUMPTIONS = ["release times on the model time grid and sorted in simulation order (as the property quantifies)",
               "still water: particles stay where they were released, so the first appearance shows the release position",
               "at least one particle is released inside the window (empty windows belong to C20)"]
TIMEOUT = {"quick": 600, "thorough": 2400}


def gen_case(seed: int, idx: int) -> dict[str, Any]:
    rng = C.rng_for(seed, 4, idx)
    dt = int(rng.choice([60, 120, 600]))
    nsteps = int(rng.integers(3, 13))
    rev = bool(idx % 2)
    cont = bool((idx // 2) % 2)
    extra_stop = int(rng.choice([0, 0, dt // 2, dt // 3]))  # duration need not be a multiple of dt
    if cont:
        extra_stop = 0  # a tick could fall on start + nsteps*dt < stop, see below
    sgn = -1 if rev else 1
    start = str(tadd(C.T0, [0, 90, 300][idx % 3]))  # start times that are not whole multiples of dt counted from 1970 (or from midnight) too
    stop = str(tadd(start, sgn * (nsteps * dt + extra_stop)))
    freq_steps = int(rng.integers(1, 5)) if cont else 0
    ntimes = int(rng.integers(1, 6))
    if cont:
        # file times on the release-frequency grid anchored at the first file time
        first = int(rng.integers(-3, max(1, nsteps - 1)))
        ks = sorted(set([0] + [int(k) for k in rng.integers(1, 6, size=ntimes - 1)]))
        steps = [first + k * freq_steps for k in ks]
    else:
        steps = sorted({int(s) for s in rng.integers(-3, nsteps + 3, size=ntimes)})
        if rng.random() < 0.25:
            steps = sorted(set(steps) | {nsteps})  # a row exactly at the stop time
        if rng.random() < 0.3:
            steps = sorted(set(steps) | {0})
    if extra_stop:
        # stop between two grid times: the grid time start + nsteps*dt is inside [start, stop) but is not a
        # model step (Nsteps = floor(duration/dt)); whether a row there must release is not settled by the
        # property text, so such rows are not generated (DESIGN 4b)
        steps = [s for s in steps if s != nsteps]
    # at least one release time inside the window
    if not cont and not any(0 <= s < nsteps for s in steps):
        steps = sorted(set(steps) | {int(rng.integers(0, nsteps))})
    use_mult = rng.random() < 0.8
    lonlat = rng.random() < 0.25
    header = rng.random() < 0.6
    extras = []
    if rng.random() < 0.7:
        extras.append(["rid", "int", "instance" if rng.random() < 0.6 else "particle"])
    if rng.random() < 0.5:
        extras.append(["wgt", "float", "instance" if rng.random() < 0.5 else "particle"])
    if rng.random() < 0.35:
        extras.append(["hatch", "time", "particle"])  # a time-typed extra column (besides release_time)
    rel_time_pv = rng.random() < 0.5
    both = bool(idx % 7 == 4) and not lonlat
    if both:
        # grid coordinates AND longitude/latitude in the file (documented: X, Y are used); lon/lat are then ordinary columns carried by the particles
        extras = [["lon", "float", "particle"], ["lat", "float", "particle"]] + extras
    big = bool(idx % 5 == 3)  # long tables: many differing rows per release time
    imax, jmax = 12, 10
    cols = ["release_time"] + (["mult"] if use_mult else []) + (["lon", "lat"] if lonlat else ["X", "Y"]) + ["Z"] + [e[0] for e in extras]
    rows = []
    rid = 100
    bigint = bool(idx % 4 == 1)
    if bigint:
        # identifiers beyond 2**53 (not representable as floating point numbers), and no time-typed column besides the release time itself
        rid = 2**53 + 1 + 2 * idx
        extras = [e for e in extras if e[1] != "time"]
        if not any(e[0] == "rid" for e in extras):
            extras.append(["rid", "int", "instance" if idx % 8 == 1 else "particle"])
        rel_time_pv = False
        cols = cols[:cols.index("Z") + 1] + [e[0] for e in extras]
    for s in steps:
        nrow = int(rng.integers(9, 14)) if big else int(rng.choice([1, 1, 2, 3]))
        for _ in range(nrow):
            t = str(tadd(start, sgn * s * dt))
            x = float(np.round(rng.uniform(3.0 if lonlat else 2.0, imax - 3.0), 3))
            y = float(np.round(rng.uniform(2.0, jmax - 3.0), 3))
            z = float(np.round(rng.uniform(0.0, 50.0), 2))
            row: list[Any] = [t]
            if use_mult:
                row.append(int(rng.choice([0, 1, 1, 2, 3, 4])))
            if lonlat:
                row += [5.0 + 0.02 * x, 60.0 + 0.01 * y]
            else:
                row += [x, y]
            row.append(z)
            for e in extras:
                if e[0] == "rid":
                    rid += 1
                    row.append(rid)
                elif e[0] == "lon":  # coordinates of another point than (x, y)
                    row.append(float(np.round(5.0 + 0.02 * (x + 1.7), 6)))
                elif e[0] == "lat":
                    row.append(float(np.round(60.0 + 0.01 * (y - 1.2), 6)))
                elif e[1] == "time":
                    tv = tadd(start, -int(rng.integers(0, 10**6)))
                    if idx % 3 != 1:  # the rows spell their times at different ISO 8601 precisions (date, hour, minute, second)
                        unit = ["s", "D", "h", "m", "s"][int(rng.integers(5))]
                        tv = np.datetime64(tv, unit)
                    row.append(str(tv))
                else:
                    row.append(float(np.round(rng.uniform(0, 10), 4)))
            rows.append(row)
    if cont and use_mult and idx % 8 in (2, 3) and len(steps) >= 2:
        # continuous mode: a later file time whose whole row set has mult = 0 switches the release off from that time on (until the next file time)
        mi_ = cols.index("mult")
        t_off = str(tadd(start, sgn * steps[1] * dt))
        for r_ in rows:
            if r_[0] == t_off:
                r_[mi_] = 0
        first_t = str(tadd(start, sgn * steps[0] * dt))
        if all(r_[mi_] == 0 for r_ in rows if r_[0] == first_t):
            next(r_ for r_ in rows if r_[0] == first_t)[mi_] = 2
    return dict(idx=idx, dt=dt, nsteps=nsteps, reversed=rev, continuous=cont, freq_steps=freq_steps, start=start, stop=stop,
                columns=cols, rows=rows, header=header, extras=extras, lonlat=lonlat, use_mult=use_mult,
                release_time_pv=rel_time_pv, imax=imax, jmax=jmax, both=both, big=big, bigint=bigint)


def gen_cases(tier: str, seed: int) -> list[dict[str, Any]]:
    n = 240 if tier == "quick" else 40000
    return [gen_case(seed, i) for i in range(n)]


# ---------------------------------------------------------------------------------------
# independent schedule
# ---------------------------------------------------------------------------------------


def expected_schedule(case: dict[str, Any]) -> list[dict[str, Any]]:
    """Plain-loop schedule: list of expected particles in pid order."""
    dt = case["dt"]
    sgn = -1 if case["reversed"] else 1
    start = np.datetime64(case["start"], "s")
    stop = np.datetime64(case["stop"], "s")
    cols = case["columns"]

    def sim_pos(t):  # position on the simulation axis in seconds after start (>= 0 inside the window)
        return sgn * int((np.datetime64(t, "s") - start) / np.timedelta64(1, "s"))

    length = sim_pos(stop)  # duration in seconds along the simulation axis
    rows = []
    for ri, r in enumerate(case["rows"]):
        d = dict(zip(cols, r))
        d["_row"] = ri
        d["_pos"] = sim_pos(d["release_time"])
        d["_mult"] = int(d.get("mult", 1))
        rows.append(d)
    out = []
    events = []  # (pos, row)
    if not case["continuous"]:
        for d in rows:
            if 0 <= d["_pos"] < length:
                events.append((d["_pos"], d))
    else:
        freq = case["freq_steps"] * dt
        file_pos = []
        for d in rows:
            if d["_pos"] not in file_pos:
                file_pos.append(d["_pos"])
        anchor = file_pos[0]
        tick = anchor
        while tick < length:
            if tick >= 0:
                latest = max(p for p in file_pos if p <= tick)
                for d in rows:
                    if d["_pos"] == latest:
                        events.append((tick, d))
            tick += freq
    events.sort(key=lambda e: e[0])  # stable: file-row order within a time
    for pos, d in events:
        step = pos // dt
        for _ in range(d["_mult"]):
            out.append(dict(step=step, pos=pos, row=d["_row"], d=d))
    return out


# ---------------------------------------------------------------------------------------


def build_scenario(case: dict[str, Any]) -> dict[str, Any]:
    lo, hi = sorted([case["start"], case["stop"]])
    w = C.still_world(lo, hi, imax=case["imax"], jmax=case["jmax"], N=3,
                      lonlat=dict(kind="index", lon0=5.0, dlon=0.02, lat0=60.0, dlat=0.01))
    st_i, st_p = {}, {}
    out_i = dict(pid="i4", X="f8", Y="f8", Z="f8")
    out_p = {}
    for name, typ, kind in case["extras"]:
        if kind == "instance":
            st_i[name] = typ
            out_i[name] = ("i8" if case.get("bigint") else "i4") if typ == "int" else "f8"
        else:
            st_p[name] = typ
            out_p[name] = ("i8" if case.get("bigint") else "i4") if typ == "int" else "f8"
    if case["release_time_pv"]:
        st_p["release_time"] = "time"
        out_p["release_time"] = "f8"
    # half of the cases configure default values for the extra columns too: a value in the release file must win over the default
    defaults = {}
    if case["idx"] % 2:
        for name, typ, kind in case["extras"]:
            if typ != "time":
                defaults[name] = -7 if typ == "int" else -7.5
    run = dict(
        start=case["start"], stop=case["stop"], dt=case["dt"], reversed=case["reversed"], advection="EF",
        release=dict(columns=case["columns"], rows=case["rows"], header=case["header"], continuous=case["continuous"],
                     freq=case["freq_steps"] * case["dt"],
                     idle_frequency=(2 * case["dt"] if (not case["continuous"] and case["idx"] % 3 == 1) else 0), continuous_key_false=bool(case["idx"] % 2)),
        state=dict(instance_variables=st_i, particle_variables=st_p, default_values=defaults),
        output=dict(period=case["dt"], instance=out_i, particle=out_p),
    )
    if case["lonlat"] and case["idx"] % 2 == 0:
        run["subgrid"] = [2, case["imax"] - 1, 1, case["jmax"] - 1]  # longitude/latitude rows on a subgrid whose corner is off the diagonal
    return dict(world=w, run=run)


def run_case(case: dict[str, Any], wd: Path) -> dict[str, Any]:
    from ladim.release import ParticleReleaser  # noqa: PLC0415

    exp = expected_schedule(case)
    scn = build_scenario(case)
    events: list[dict[str, Any]] = []
    # a third of the cases: the IBM kills the first particle of every release batch in the step of its release, so that later
    # releases enter a state from which particles have been removed (new particles must still be new)
    killed_at: dict[int, int] = {}
    if case["idx"] % 3 == 2 and exp:
        seen_steps: set[int] = set()
        for pid_, e_ in enumerate(exp):
            if e_["step"] not in seen_steps:
                seen_steps.add(e_["step"])
                killed_at[pid_] = e_["step"]
        sched: dict[str, list[int]] = {}
        for pid_, s_ in killed_at.items():
            sched.setdefault(str(s_), []).append(pid_)
        scn["run"]["ibm"] = dict(module=C.REC_IBM, kill=sched, log=False)

    # a twelfth of the cases (discrete, no IBM): the output is split so that the run can be taken up again from its first file; the rows
    # scheduled after the restart must enter the continuation exactly as they enter the uninterrupted run
    kcut = case["nsteps"] // 2
    warm_leg = bool(case["idx"] % 12 in (0, 1) and not case["continuous"] and case["nsteps"] >= 5 and not killed_at
                    and abs(int((np.datetime64(case["stop"], "s") - np.datetime64(case["start"], "s")) / np.timedelta64(1, "s"))) == case["nsteps"] * case["dt"])
    if warm_leg:
        scn["run"]["output"]["numrec"] = kcut + 1

    def before(self, *a, **k):
        return self.modules["state"].npid

    def after(tok, _res, self, *a, **k):
        n = self.modules["state"].npid - tok
        if n:
            t = self.modules["time"]
            events.append(dict(step=int(t.step), clock=str(t.time), n=int(n)))

    if case["idx"] % 5 == 0:
        # history: an earlier run in this process used another release table (and grid files) under the very same file names
        import copy  # noqa: PLC0415

        alt = copy.deepcopy(case)
        alt["rows"] = [r_[:] for r_ in (case["rows"][:-1] or case["rows"])]
        for r_ in alt["rows"]:
            if case["use_mult"]:
                r_[case["columns"].index("mult")] = 1
            zi_ = case["columns"].index("Z")
            r_[zi_] = float(r_[zi_]) + 1.5
        pre, _cp, _wp = run_scenario(build_scenario(alt), wd)
        for f_ in pre.outputs:
            Path(f_).unlink(missing_ok=True)
        sit_pre = int(pre.ok)
        if not pre.ok:  # an aborted run may have left its forcing file open: the main run gets fresh files
            import shutil  # noqa: PLC0415

            shutil.rmtree(wd / "world", ignore_errors=True)
    else:
        sit_pre = 0
    with Hooks() as hk:
        hk.wrap(ParticleReleaser, "update", before, after)
        res, conf, _w = run_scenario(scn, wd)
        nhook = hk.counts["ParticleReleaser.update"]

    V = []
    sit: dict[str, int] = {}
    mode = ("continuous" if case["continuous"] else "discrete") + ("_reversed" if case["reversed"] else "_forward")
    sit[mode] = 1
    dt = case["dt"]
    length = case["nsteps"] * dt
    cols = case["columns"]
    poss = [(-1 if case["reversed"] else 1) * int((np.datetime64(r[0], "s") - np.datetime64(case["start"], "s")) / np.timedelta64(1, "s"))
            for r in case["rows"]]
    total_len = abs(int((np.datetime64(case["stop"], "s") - np.datetime64(case["start"], "s")) / np.timedelta64(1, "s")))
    sit["row_before_start"] = int(any(p < 0 for p in poss))
    sit["row_at_or_after_stop"] = int(any(p >= total_len for p in poss))
    sit["row_exactly_at_stop"] = int(any(p == total_len for p in poss))
    if case["use_mult"]:
        mi = cols.index("mult")
        sit["mult_zero"] = int(any(r[mi] == 0 for r in case["rows"]))
        sit["mult_gt1"] = int(any(r[mi] > 1 for r in case["rows"]))
    if case["continuous"] and case["use_mult"]:
        mi = cols.index("mult")
        seen_nonzero = False
        for t_ in dict.fromkeys(r[0] for r in case["rows"]):
            grp = [r for r in case["rows"] if r[0] == t_]
            p_ = poss[case["rows"].index(grp[0])]
            if seen_nonzero and all(r[mi] == 0 for r in grp) and p_ < length:
                sit["continuous_file_time_with_only_mult_zero_after_a_releasing_one"] = 1
            seen_nonzero = seen_nonzero or any(r[mi] > 0 for r in grp)
    sit["earlier_run_with_another_table_under_the_same_file_names"] = sit_pre
    sit["start_time_not_a_multiple_of_dt_counted_from_1970"] = int(int((np.datetime64(case["start"], "s") - np.datetime64("1970-01-01T00:00:00", "s")) / np.timedelta64(1, "s")) % dt != 0)
    sit["several_rows_per_time"] = int(len(set(poss)) < len(poss))
    sit["lonlat_position"] = int(case["lonlat"])
    sit["lonlat_position_on_off_diagonal_subgrid"] = int(case["lonlat"] and case["idx"] % 2 == 0)
    sit["names_in_config"] = int(not case["header"])
    sit["particle_variable_column"] = int(any(e[2] == "particle" for e in case["extras"]) or case["release_time_pv"])
    sit["release_hook_events"] = len(events)
    sit["integer_column_beyond_2_to_53"] = int(bool(case.get("bigint")))
    sit["discrete_release_with_frequency_entry"] = int(not case["continuous"] and case["idx"] % 3 == 1)
    sit["file_with_XY_and_lonlat"] = int(bool(case.get("both")))
    sit["table_with_17_or_more_rows_several_per_time"] = int(len(case["rows"]) >= 17 and bool(case.get("big")))
    sit["release_after_particles_were_removed"] = int(len(set(killed_at.values())) >= 2)
    sit["column_with_configured_default"] = int(case["idx"] % 2 == 1 and any(e[1] != "time" for e in case["extras"]))
    counters = {"ParticleReleaser.update calls": nhook, "expected_particles": len(exp)}
    sample = dict(mode=mode, dt=dt, nsteps=case["nsteps"], columns=cols, rows=case["rows"][:4], n_rows=len(case["rows"]),
                  expected_particles=len(exp), release_events_observed=events[:6])
    key = f"{mode}|{sorted(set(p // dt for p in poss))}|{[r[cols.index('mult')] for r in case['rows']] if case['use_mult'] else 1}|{case['freq_steps']}"

    if not exp:
        # nothing scheduled inside the window: outside this property's scenario space (C20 decides refusal)
        return C.result([], sit, counters, nontrivial=False, key=key, sample=sample, void=True)

    if not res.ok:
        V.append(C.viol(f"run with a valid release table did not complete: {res.exc}", tb=res.tb[-1500:]))
        return C.result(V, sit, counters, nontrivial=True, key=key, sample=sample)

    files = read_outputs(res.outputs)
    recs = all_records(files)
    pvars = files[-1].pvars if files else {}
    # --- first appearance of every pid
    first: dict[int, tuple[int, dict[str, Any]]] = {}
    for ri, r in enumerate(recs):
        for k, p in enumerate(r.pid):
            if int(p) not in first:
                first[int(p)] = (ri, {n: v[k] for n, v in r.vars.items()})
    counters["records_read"] = len(recs)
    counters["pids_seen"] = len(first)
    if len(first) != len(exp):
        V.append(C.viol(f"{len(exp)} particles scheduled by the release table, {len(first)} distinct pids appeared in the output",
                        expected_steps=[e["step"] for e in exp][:40], seen=sorted(first)[:40]))
    if sorted(first) != list(range(len(first))):
        V.append(C.viol("pids in the output are not 0..n-1", seen=sorted(first)[:40]))
    ncmp = 0
    for pid, e in enumerate(exp):
        if pid not in first:
            continue
        ri, vals = first[pid]
        d = e["d"]
        if ri != e["step"]:
            V.append(C.viol(f"pid {pid} (row {e['row']}, time {d['release_time']}) first appears in record {ri}, scheduled for step {e['step']}"))
            break
        if case["lonlat"]:
            ex, ey = (d["lon"] - 5.0) / 0.02, (d["lat"] - 60.0) / 0.01
            tol = 1e-6
            # the conversion stops when (dlon^2 + dlat^2) < 1e-7 (C16: "to the solver tolerance"): a start position within that residual is the row's position
            res2 = ((5.0 + 0.02 * vals["X"]) - d["lon"]) ** 2 + ((60.0 + 0.01 * vals["Y"]) - d["lat"]) ** 2
            if res2 < 1.0e-7:
                ex, ey = vals["X"], vals["Y"]
        else:
            ex, ey = d["X"], d["Y"]
            tol = 1e-12
        if abs(vals["X"] - ex) > tol or abs(vals["Y"] - ey) > tol or abs(vals["Z"] - d["Z"]) > 1e-12:
            V.append(C.viol(f"pid {pid} released at ({vals['X']},{vals['Y']},{vals['Z']}), row {e['row']} says ({ex},{ey},{d['Z']})"))
            break
        for name, typ, kind in case["extras"]:
            got = vals[name] if kind == "instance" else (pvars[name][pid] if name in pvars and pid < len(pvars[name]) else None)
            if typ == "time":
                ref0 = np.datetime64(files[-1].time_units.split("since")[1].strip(), "s")
                want_t = float((np.datetime64(d[name], "s") - ref0) / np.timedelta64(1, "s"))
                sit["time_typed_column_values"] = sit.get("time_typed_column_values", 0) + 1
                if len({len(str(r[cols.index(name)])) for r in case["rows"]}) > 1:
                    sit["time_typed_column_with_mixed_iso_precisions"] = sit.get("time_typed_column_with_mixed_iso_precisions", 0) + 1
                if got is None or abs(float(got) - want_t) > 1e-6 or "since" not in files[-1].pvar_units.get(name, ""):
                    V.append(C.viol(f"pid {pid}: time-typed column {name} = {got} ({files[-1].pvar_units.get(name)!r}), row {e['row']} says {d[name]} = {want_t} s after the reference time"))
                    break
                continue
            if typ == "int" and got is not None and int(got) != int(d[name]):  # exact, also beyond 2**53
                V.append(C.viol(f"pid {pid}: integer column {name} ({kind}) = {int(got)}, row {e['row']} says {int(d[name])}"))
                break
            if got is None or abs(float(got) - float(d[name])) > 1e-9:
                V.append(C.viol(f"pid {pid}: extra column {name} ({kind}) = {got}, row {e['row']} says {d[name]}"))
                break
        if case["release_time_pv"]:
            f = files[-1]
            ref = np.datetime64(f.time_units.split("since")[1].strip(), "s")
            got = pvars.get("release_time")
            want = float((np.datetime64(case["start"], "s") + np.timedelta64((-1 if case["reversed"] else 1) * e["pos"], "s") - ref) / np.timedelta64(1, "s"))
            if got is None or pid >= len(got) or abs(float(got[pid]) - want) > 1e-6:
                V.append(C.viol(f"pid {pid}: release_time particle variable {None if got is None or pid >= len(got) else got[pid]} != {want} s after reference"))
                break
        ncmp += 1
    counters["particles_compared"] = ncmp
    # --- release events (hook): right step, right clock, right number
    by_step: dict[int, int] = {}
    for e in exp:
        by_step[e["step"]] = by_step.get(e["step"], 0) + 1
    got_by_step = {e["step"]: e["n"] for e in events}
    if by_step != got_by_step and not V:
        V.append(C.viol("particles appended per model step differ from the schedule", expected=by_step, observed=got_by_step))
    sgn = -1 if case["reversed"] else 1
    for e in events:
        want = str(tadd(case["start"], sgn * e["step"] * dt))
        if e["clock"] != want:
            V.append(C.viol(f"release at step {e['step']} happened with the model clock at {e['clock']}, the step's time is {want}"))
            break
    # --- particle_count conservation
    cum = 0
    for ri, r in enumerate(recs):
        cum += by_step.get(ri, 0)
        gone = sum(1 for s_ in killed_at.values() if s_ < ri)
        if len(r.pid) != cum - gone:
            V.append(C.viol(f"record {ri} holds {len(r.pid)} particles, {cum} scheduled so far, {gone} of them killed by the IBM before this record (still water)"))
            break
        if len(set(int(p) for p in r.pid)) != len(r.pid):
            V.append(C.viol(f"record {ri}: identifiers repeat within the record ({[int(p) for p in r.pid][:12]}): a release did not yield new particles"))
            break
    if warm_leg and not V and len(res.outputs) >= 2:
        extra_names = [e[0] for e in case["extras"]] + (["release_time"] if case["release_time_pv"] else [])
        run2 = dict(scn["run"], warm_start=dict(filename=str(res.outputs[0]), variables=extra_names))
        run2["output"] = dict(scn["run"]["output"], filename="warm.nc", numrec=0)
        res2, _c2, _w2 = run_scenario(dict(world=None, run=run2), wd / "warm", world=_w)
        later = [(pid, e) for pid, e in enumerate(exp) if e["step"] > kcut]
        sit["warm_started_leg_with_later_releases"] = int(bool(later))
        if not res2.ok:
            V.append(C.viol(f"run taken up again from {res.outputs[0].name} (last record at step {kcut}) did not complete: {res2.exc}", tb=res2.tb[-1200:]))
        else:
            files2 = read_outputs(res2.outputs)
            t0_ = np.datetime64(case["start"], "s")
            first2: dict[int, tuple[int, dict[str, Any]]] = {}
            for r in all_records(files2):
                st_ = abs(int((r.time - t0_) / np.timedelta64(1, "s"))) // dt
                for k, p in enumerate(r.pid):
                    first2.setdefault(int(p), (st_, {n: v[k] for n, v in r.vars.items()}))
            new2 = {p: v for p, v in first2.items() if p not in {int(q) for q in files[0].records[-1].pid}}
            counters["warm_leg_new_particles"] = len(new2)
            if sorted(new2) != [pid for pid, _e in later]:
                V.append(C.viol(f"run taken up again from {res.outputs[0].name} (last record at step {kcut}): new particles {sorted(new2)[:20]}, the rows scheduled after the restart are "
                                f"pids {[pid for pid, _e in later][:20]} at steps {[e['step'] for _p, e in later][:20]}"))
            else:
                for pid, e in later:
                    st_, vals = new2[pid]
                    d = e["d"]
                    okpos = True
                    if not case["lonlat"]:
                        okpos = abs(vals["X"] - d["X"]) <= 1e-12 and abs(vals["Y"] - d["Y"]) <= 1e-12
                    if st_ != e["step"] or not okpos or not abs(vals["Z"] - d["Z"]) <= 1e-12:
                        V.append(C.viol(f"run taken up again from {res.outputs[0].name}: pid {pid} (row {e['row']}, step {e['step']}) first appears at step {st_} at "
                                        f"({vals['X']},{vals['Y']},{vals['Z']})"))
                        break
                    for name, typ, kind in case["extras"]:
                        if kind == "instance" and typ != "time" and not abs(float(vals[name]) - float(d[name])) <= 1e-9:
                            V.append(C.viol(f"run taken up again from {res.outputs[0].name}: pid {pid}: extra column {name} = {vals[name]}, row {e['row']} says {d[name]}"))
                            break
    nontrivial = len(by_step) >= 2 or sit["row_before_start"] or sit["row_at_or_after_stop"] or sit.get("mult_zero") or sit.get("mult_gt1")
    return C.result(V, sit, counters, nontrivial=nontrivial, key=key, sample=sample)
