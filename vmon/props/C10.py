"""C10 Backward tracking = forward tracking in the time-mirrored, sign-flipped flow.

Pair monitor over two real end-to-end runs: a time-reversed run from S back to E, and a forward run over the world
mirrored in time about S (frame times t -> 2S - t, velocities negated, release times mirrored).  Record k of both
runs must hold the same particles (by release-row tag) at the same positions; the reversed run's clock (hook on
Output.write) and time coordinate must read S - k*period, and each release must happen at its stated time."""

from __future__ import annotations

from pathlib import Path
from typing import Any

import numpy as np

from vmon import common as C
from vmon import outcheck
from vmon.hooks import Hooks
from vmon.scenario import all_records, read_outputs, run_scenario, tadd

LEVEL = "exploration"
TECHNIQUE = "runtime monitoring: metamorphic pair monitor (reversed run vs forward run in the time-mirrored, sign-flipped world) over output files, plus clock/time-coordinate and release-time monitors on the reversed run"
LEVEL_TEXT = ("Multi-file, irregular frame layouts with a time-dependent sheared flow, several release times, discrete and continuous release, EF/RK2/RK4, start/stop on and between frames; "
              "for every scenario the reversed run and the mirrored forward run are executed for real and compared record by record (tags, positions to 1e-9 cells, depth exactly).")
LEVEL_NOTE = "Negation and the interpolation arithmetic are sign-symmetric in IEEE arithmetic, but increments accumulate in a different order in the two runs (float32 fields): tolerance 1e-5 cells relative to O(1) positions is used for float32 storage, 1e-9 for float64 storage."
RULE = ("case = (frame layout, file partition, start/stop positions, release table, mode, scheme). Non-trivial: at least two release times and a frame hand-over inside the run; "
        "distinct by parameters.")
MANDATORY = ["frame_stamps_with_a_sub_second_part", "reversed_run_warm_started", "single_release_time_several_rows", "release_rows_outside_the_window", "duration_not_a_whole_number_of_steps", "split_output", "particle_variable_files_compared", "release_time_between_steps", "records_compared", "multi_file", "several_release_times", "continuous", "discrete", "scheme_EF", "scheme_RK2", "scheme_RK4", "start_between_frames",
             "clock_readings_checked", "release_times_checked"]
ASSUMPTIONS = ["frames on the model time grid; release times sorted in simulation order"]
TIMEOUT = {"quick": 900, "thorough": 3400}


def gen_cases(tier: str, seed: int) -> list[dict[str, Any]]:
    n = 48 if tier == "quick" else 10000
    return [dict(seed=seed, idx=i) for i in range(n)]


def build(case: dict[str, Any]):
    rng = C.rng_for(case["seed"], 10, case["idx"])
    dt = int(rng.choice([300, 600]))
    nfr = int(rng.integers(3, 9))
    gaps = [int(g) for g in rng.choice([1, 2, 3, 4], size=nfr - 1)]
    P = [0]
    for g in gaps:
        P.append(P[-1] + g)
    files = []
    left = nfr
    while left:
        c = int(rng.integers(1, min(3, left) + 1))
        files.append(c)
        left -= c
    S = int(rng.integers(max(P[1], 2), P[-1] + 1))  # reversed run starts here (physical position in steps)
    E = int(rng.integers(P[0], S - 1)) if S - 1 > P[0] else P[0]
    ns = S - E
    imax, jmax, N = 20, 16, 3
    dx = 1000.0
    sp = float(rng.uniform(0.15, 0.45)) * dx / dt
    pattern = [dict(kind="gyre", A=sp, kx=0.4, ky=0.5, ratio=0.9), dict(kind="rotation", omega=sp / 6.0, xc=10.0, yc=8.0),
               dict(kind="jet", u=0.6 * sp, v=-0.4 * sp, shear=0.5)][case["idx"] % 3]
    amp = [float(x) for x in rng.uniform(0.4, 1.4, size=nfr) * rng.choice([1, 1, -1], size=nfr)]
    prof = [float(x) for x in rng.uniform(0.3, 1.0, size=N)]
    store = "f8" if case["idx"] % 2 else "f4"
    scheme = ["EF", "RK2", "RK4"][case["idx"] % 3]
    cont = bool((case["idx"] // 3) % 2)
    # releases on the simulation axis (steps after the start of the reversed run)
    if cont:
        freq = int(rng.integers(1, 4))
        rel_steps = sorted({0, int(rng.integers(1, 4)) * freq})
    else:
        freq = 0
        rel_steps = sorted({0} | {int(s) for s in rng.integers(0, ns, size=int(rng.integers(1, 4)))})
    single = bool(case["idx"] % 6 == 4)
    if single:
        rel_steps = [0]  # one release time only, several differing rows: they enter in file order in both runs
    rows = []
    rid = 0
    for s in rel_steps:
        # discrete tables may state a time between two model steps (one time per step; released at the step before, in
        # simulation order, in both runs)
        frac = float(rng.choice([0.0, 0.0, 0.5, 0.25])) if (not cont and s + 1 < ns) else 0.0
        if case["idx"] % 6 == 0:
            frac = 0.0  # these cases are also restarted (below): everything on the time grid
        for _ in range(3 if single else int(rng.integers(1, 4))):
            rid += 1
            rows.append(dict(step=s, frac=frac, X=float(np.round(rng.uniform(6, imax - 7), 3)), Y=float(np.round(rng.uniform(5, jmax - 6), 3)), Z=float(np.round(rng.uniform(0, 80), 2)), rid=rid))
    outside = bool(not cont and case["idx"] % 4 == 1)
    if outside:
        # rows outside the simulated window, on both sides (in the reversed table: later than S and earlier than E); they release nobody
        for s_ in (-2, -1, ns + 1):
            rid += 1
            rows.append(dict(step=s_, frac=0.0, X=9.5, Y=7.5, Z=5.0, rid=rid))
    extra = dt // 2 if (case["idx"] % 5 == 2 and E > P[0] and case["idx"] % 6) else 0  # |stop - start| not a whole number of steps: both runs take floor(.) steps
    return dict(dt=dt, P=P, files=files, S=S, E=E, ns=ns, imax=imax, jmax=jmax, N=N, dx=dx, pattern=pattern, amp=amp, prof=prof, store=store, scheme=scheme,
                subsecond=bool(case["idx"] % 4 == 2), cont=cont, freq=freq, rows=rows, numrec=2 if case["idx"] % 6 == 0 else int(rng.choice([0, 2, 3])), outside=outside, extra=extra, single=single)


def scenarios(b: dict[str, Any]):
    dt, P, S = b["dt"], b["P"], b["S"]
    t0 = C.T0  # physical time of position 0
    start = str(tadd(t0, S * dt))
    common = dict(imax=b["imax"], jmax=b["jmax"], N=b["N"], h=dict(kind="flat", h=100.0), metric=dict(kind="uniform", dx=b["dx"], dy=b["dx"]), store=b["store"])
    # a quarter of the cases: frame stamps with a sub-second part (as float days / hours produce), a quarter of a second after the model time in the
    # reversed world, hence a quarter of a second before it on the mirrored axis
    off = 0.25 if b.get("subsecond") else 0.0
    wrev = dict(common, t0=t0, frames=[p * dt + off for p in P], files=b["files"], vel=dict(b["pattern"], frame_amp=b["amp"], profile=b["prof"]))
    # mirrored about S: position p -> 2S - p, order reversed, velocities negated
    Pm = [2 * S - p for p in reversed(P)]
    wfwd = dict(common, t0=t0, frames=[p * dt - off for p in Pm], files=list(reversed(b["files"])),
                vel=dict(b["pattern"], frame_amp=[-a for a in reversed(b["amp"])], profile=b["prof"]))
    cols = ["release_time", "X", "Y", "Z", "rid"]
    srt = sorted(b["rows"], key=lambda r: r["step"] + r.get("frac", 0.0))
    rrev = [[str(tadd(start, -int(round((r["step"] + r.get("frac", 0.0)) * dt)))), r["X"], r["Y"], r["Z"], r["rid"]] for r in srt]
    rfwd = [[str(tadd(start, int(round((r["step"] + r.get("frac", 0.0)) * dt)))), r["X"], r["Y"], r["Z"], r["rid"]] for r in srt]
    out = dict(period=dt, instance=dict(pid="i4", X="f8", Y="f8", Z="f8", rid="i4"), particle=dict(release_time="f8"), numrec=b.get("numrec", 0))
    st = dict(instance_variables=dict(rid="int"), particle_variables=dict(release_time="time"))

    def rel(rows):
        d = dict(columns=cols, rows=rows, header=True)
        if b["cont"]:
            d.update(continuous=True, freq=b["freq"] * dt)
        return d

    ex = int(b.get("extra", 0))
    run_rev = dict(start=start, stop=str(tadd(start, -b["ns"] * dt - ex)), dt=dt, reversed=True, advection=b["scheme"], release=rel(rrev), state=st, output=out)
    run_fwd = dict(start=start, stop=str(tadd(start, b["ns"] * dt + ex)), dt=dt, advection=b["scheme"], release=rel(rfwd), state=st, output=out)
    return dict(world=wrev, run=run_rev), dict(world=wfwd, run=run_fwd), start


def run_case(case: dict[str, Any], wd: Path) -> dict[str, Any]:
    b = build(case)
    srev, sfwd, start = scenarios(b)
    dt = b["dt"]
    V: list = []
    sit: dict[str, int] = {}
    cnt: dict[str, int] = {}
    desc = dict(idx=case["idx"], frame_positions=b["P"], files=b["files"], start_pos=b["S"], stop_pos=b["E"], scheme=b["scheme"], continuous=b["cont"], store=b["store"],
                release_steps=sorted({r["step"] for r in b["rows"]}))
    clock: list[str] = []
    with Hooks() as hk:
        from ladim.out_netcdf import Output  # noqa: PLC0415

        hk.wrap(Output, "write", lambda self, state: clock.append(str(self.timer.time)), None)
        rres, rconf, rworld = run_scenario(srev, wd / "rev")
    fres, fconf, _ = run_scenario(sfwd, wd / "fwd")
    sit["multi_file"] = int(len(b["files"]) > 1)
    sit["several_release_times"] = int(len({r["step"] for r in b["rows"]}) > 1)
    sit["continuous" if b["cont"] else "discrete"] = 1
    sit[f"scheme_{b['scheme']}"] = 1
    sit["frame_stamps_with_a_sub_second_part"] = int(bool(b.get("subsecond")))
    sit["start_between_frames"] = int(b["S"] not in b["P"])
    sit["release_time_between_steps"] = int(any(r.get("frac") for r in b["rows"]))
    sit["release_rows_outside_the_window"] = int(bool(b.get("outside")))
    sit["single_release_time_several_rows"] = int(bool(b.get("single")))
    sit["duration_not_a_whole_number_of_steps"] = int(bool(b.get("extra")))
    key = str(desc)
    if not fres.ok:
        # the mirrored forward run is the reference: if it cannot run the case is void for this property
        return C.result([], sit, cnt, nontrivial=False, key=key, sample=desc, void=True, note=f"forward reference run failed: {fres.exc}")
    if not rres.ok:
        V.append(C.viol(f"time-reversed run did not complete: {rres.exc} (the mirrored forward run did)", tb=rres.tb[-1500:], **desc))
        return C.result(V, sit, cnt, nontrivial=True, key=key, sample=desc)
    rfiles, ffiles = read_outputs(rres.outputs), read_outputs(fres.outputs)
    rrec = all_records(rfiles)
    frec = all_records(ffiles)
    # same file layout and the mirrored release times in the particle variable of every file
    sit["split_output"] = int(b.get("numrec", 0) > 0)
    if [(f.path.name, len(f.records)) for f in rfiles] != [(f.path.name, len(f.records)) for f in ffiles]:
        V.append(C.viol(f"output files of the reversed run {[(f.path.name, len(f.records)) for f in rfiles]} differ from those of the mirrored forward run "
                        f"{[(f.path.name, len(f.records)) for f in ffiles]}", **desc))
    for fr_, ff_ in zip(rfiles, ffiles):
        a_ = np.asarray(fr_.pvars.get("release_time", []), float)
        b_ = np.asarray(ff_.pvars.get("release_time", []), float)
        sit["particle_variable_files_compared"] = sit.get("particle_variable_files_compared", 0) + 1
        ref_r = np.datetime64(fr_.time_units.split("since")[1].strip(), "s")
        ref_f = np.datetime64(ff_.time_units.split("since")[1].strip(), "s")
        S_ = np.datetime64(start, "s")
        # seconds before S in the reversed run == seconds after S in the forward run
        ar = (S_ - ref_r) / np.timedelta64(1, "s") - a_
        bf = b_ - (S_ - ref_f) / np.timedelta64(1, "s")
        if len(ar) != len(bf) or (len(ar) and np.max(np.abs(ar - bf)) > 1e-6):
            V.append(C.viol(f"{fr_.path.name}: release_time particle variable of the reversed run ({ar[:6].tolist()} s before S) is not the mirror of the forward run's "
                            f"({bf[:6].tolist()} s after S)", **desc))
            break
    on_grid = not any(r_.get("frac") for r_ in b["rows"]) and not b.get("extra")  # restart transparency is judged for set-ups on the time grid
    if b.get("numrec", 0) > 0 and len(rfiles) > 1 and len(rfiles[0].records) and on_grid and case["idx"] % 2 == 0:
        # the reversed run taken up again from its first output file: its clock goes on backwards from the last record of that file
        run_w = dict(srev["run"], warm_start=dict(filename=str(rfiles[0].path), variables=["release_time", "rid"]))
        run_w["output"] = dict(srev["run"]["output"], filename="out_001.nc")
        wres, _wc, _ww = run_scenario(dict(world=None, run=run_w), wd / "rev_warm", world=rworld)
        sit["reversed_run_warm_started"] = 1
        if not wres.ok:
            V.append(C.viol(f"warm start of the time-reversed run from {rfiles[0].path.name} did not complete: {wres.exc}", tb=wres.tb[-1000:], **desc))
        else:
            t_re = rfiles[0].records[-1].time
            wrecs = {r.time: r for f_ in read_outputs(wres.outputs) for r in f_.records}
            for r in rrec:
                if r.time >= t_re:
                    continue
                w_ = wrecs.get(r.time)
                if w_ is None or len(w_.pid) != len(r.pid) or np.any(np.asarray(w_.pid) != np.asarray(r.pid)) or (
                        len(r.pid) and np.max(np.abs(np.asarray(w_.vars["X"]) - np.asarray(r.vars["X"]))) > (1e-9 if b["store"] == "f8" else 2e-5)):  # f4 fields: restart re-interpolates in single precision
                    V.append(C.viol(f"reversed run warm-started at {t_re}: record at {r.time} {'is missing' if w_ is None else 'differs from the uninterrupted reversed run'} "
                                    f"(records of the restarted run: {[str(t) for t in sorted(wrecs)][:6]})", **desc))
                    break
            late = [t for t in wrecs if t > t_re]
            if late and not V:
                V.append(C.viol(f"reversed run warm-started at {t_re} wrote records at later times {[str(t) for t in sorted(late)][:4]}: its clock did not go on backwards from the restart time", **desc))
    if len(rrec) != len(frec):
        V.append(C.viol(f"reversed run wrote {len(rrec)} records, mirrored forward run {len(frec)}", **desc))
    tol = 1e-9 if b["store"] == "f8" else 2e-5
    S0 = np.datetime64(start, "s")
    first_seen: dict[int, int] = {}
    for k, (a, f) in enumerate(zip(rrec, frec)):
        outcheck.check_record_pids(a, V, "reversed run: ")
        want_t = S0 - np.timedelta64(k * dt, "s")
        sit["clock_readings_checked"] = sit.get("clock_readings_checked", 0) + 1
        if a.time != want_t or (k < len(clock) and clock[k] != str(want_t)):
            V.append(C.viol(f"reversed run record {k}: time coordinate {a.time}, model clock {clock[k] if k < len(clock) else '?'}; must read S - k*period = {want_t}", **desc))
            break
        if f.time != S0 + np.timedelta64(k * dt, "s"):
            return C.result([], sit, cnt, nontrivial=False, key=key, sample=desc, void=True, note="forward reference time axis unexpected")
        ra, rf = np.asarray(a.vars["rid"]).astype(int), np.asarray(f.vars["rid"]).astype(int)
        if sorted(ra.tolist()) != sorted(rf.tolist()):
            V.append(C.viol(f"record {k}: reversed run holds release rows {sorted(ra.tolist())}, mirrored forward run {sorted(rf.tolist())}", **desc))
            break
        if not b["cont"]:
            fa = {int(r): j for j, r in enumerate(ra)}
            ff = {int(r): j for j, r in enumerate(rf)}
            for r_, ja in fa.items():
                jf = ff[r_]
                d = max(abs(a.vars["X"][ja] - f.vars["X"][jf]), abs(a.vars["Y"][ja] - f.vars["Y"][jf]))
                cnt["positions_compared"] = cnt.get("positions_compared", 0) + 1
                if d > tol or a.vars["Z"][ja] != f.vars["Z"][jf]:
                    V.append(C.viol(f"record {k}: row {r_} is at ({a.vars['X'][ja]:.9f},{a.vars['Y'][ja]:.9f}) in the reversed run, at ({f.vars['X'][jf]:.9f},{f.vars['Y'][jf]:.9f}) "
                                    f"in the mirrored forward run (difference {d:.3g} cells)", **desc))
                    break
                first_seen.setdefault(r_, k)
        else:
            # continuous release re-releases rows: compare the multisets of positions in pid order (same release order in both runs)
            if len(a.pid) != len(f.pid) or np.any(ra != rf):
                V.append(C.viol(f"record {k}: order of particles (row tags {ra.tolist()}) differs from the mirrored forward run ({rf.tolist()})", **desc))
                break
            d = max(np.max(np.abs(a.vars["X"] - f.vars["X"]), initial=0.0), np.max(np.abs(a.vars["Y"] - f.vars["Y"]), initial=0.0))
            cnt["positions_compared"] = cnt.get("positions_compared", 0) + len(a.pid)
            if d > tol:
                V.append(C.viol(f"record {k}: positions differ from the mirrored forward run by {d:.3g} cells", **desc))
                break
            for r_ in ra.tolist():
                first_seen.setdefault(int(r_), k)
        if V:
            break
        sit["records_compared"] = sit.get("records_compared", 0) + 1
    if not V:
        for r in b["rows"]:
            if not (0 <= r["step"] < b["ns"]):
                if r["rid"] in first_seen and not b["cont"]:
                    V.append(C.viol(f"release row {r['rid']} stated for {tadd(start, -r['step'] * dt)} (step {r['step']}, outside the simulated window) appears in record {first_seen[r['rid']]} of the reversed run", **desc))
                continue
            if not r.get("frac"):
                sit["release_times_checked"] = sit.get("release_times_checked", 0) + 1
                if first_seen.get(r["rid"]) != r["step"]:
                    V.append(C.viol(f"release row {r['rid']} stated for {tadd(start, -r['step'] * dt)} (step {r['step']}) first appears in record {first_seen.get(r['rid'])} of the reversed run", **desc))
                    break
    handover = any(0 < (b["S"] - p) < b["ns"] for p in b["P"])
    return C.result(V[:3], sit, cnt, nontrivial=handover and len({r["step"] for r in b["rows"]}) > 1, key=key, sample=desc)
