"""C05 Particle identity: pids dense, ordered, never reused, following the particle.

Monitor: icontract class invariant on the real State after every public operation + a shadow
model (plain python rows keyed by pid) compared after every operation.  Operation sequences are
enumerated exhaustively up to a bounded length and sampled randomly beyond."""

from __future__ import annotations

import itertools
from pathlib import Path
from typing import Any

import numpy as np

from vmon import common as C

LEVEL = "exploration"
TECHNIQUE = "runtime monitoring: icontract class invariant on State + shadow model after every operation; bounded-exhaustive operation sequences plus long random ones"
LEVEL_TEXT = ("All sequences up to length 4 (quick) / 6 (thorough) over a 12-operation alphabet (append scalar/array/broadcast/length-1 arrays/zero-length arrays/defaults, kill first/last/middle, "
              "compactify, instance and particle item assignment) are executed on the real State with extra instance and particle variables; after every "
              "operation an icontract invariant and a pid-keyed shadow model are checked. Random sequences of length 50-300 extend the reach.")
LEVEL_NOTE = "Trusts numpy and icontract; the record-level clause (pid strictly increasing, pid[k] >= k in every output record) is asserted by the shared output checker in the end-to-end checks (C06, C09, C14 ...)."
RULE = ("case = all operation sequences of the given length with a fixed two-operation prefix (exhaustive family) or a batch of random sequences; "
        "non-trivial sequence: contains an append, a kill and a compactify followed by another append (the pid-reuse / misalignment pattern); distinct by sequence.")
MANDATORY = ["rejected_append_then_state_compared", "compactify_with_living_inactive_particles", "compactify_of_few_dead_among_more_than_20", "e2e_warm_start_from_a_file_whose_last_record_is_empty", "e2e_warm_start_with_a_new_defaulted_particle_variable", "e2e_warm_start_without_particle_variables", "in_place_update_after_assignment_from_another_variable", "append_after_compactify", "kill_then_compactify", "invariant_evaluations", "shadow_comparisons", "particle_variable_follow_pid", "e2e_split_files_checked", "e2e_particle_values_compared"]
ASSUMPTIONS = ["single-threaded use of State (ladim has no threads)"]
EXHAUSTIVE = {"quick": True, "thorough": True}
TIMEOUT = {"quick": 600, "thorough": 3000}

OPS_MORE = ["deact_mid", "bad_app", "app_big"]  # used by the random sequences only (the exhaustive alphabet stays as it was)
OPS = ["app_scalar", "app_array", "app_bcast", "app_default", "kill_first", "kill_last", "kill_mid", "compact", "set_inst", "set_part", "app_len1", "app_empty", "set_alias"]


class InvariantBroken(Exception):
    _vmon_target = True  # a broken contract is a verdict about the code under test, also when it fires inside a ladim run


_st: dict[str, Any] = dict(n=0, installed=False)


def state_consistent(self) -> bool:
    _st["n"] += 1
    if _st.get("suspended"):
        return True  # inside warm_start(), which fills the state one variable at a time; judged again when it returns
    v = self.variables
    n = len(v["pid"])
    for name in self.instance_variables:
        if len(v[name]) != n:
            return False
    pid = v["pid"]
    if n:
        if np.any(np.diff(pid) <= 0):
            return False
        if np.any(pid < np.arange(n)):
            return False
        if pid[-1] >= self.npid:
            return False
    for name in self.particle_variables:
        if len(v[name]) != self.npid:
            return False
    return True


def _install():
    import icontract  # noqa: PLC0415
    import ladim.state as st  # noqa: PLC0415

    if not _st["installed"]:
        icontract.invariant(state_consistent, error=InvariantBroken)(st.State)
        # warm_start() assigns the variables of the state one by one: the invariant holds before and after it, not in between
        import ladim.model as lm  # noqa: PLC0415

        orig_ws = lm.warm_start

        def warm_start_observed(filename, variables, state):
            _st["suspended"] = _st.get("suspended", 0) + 1
            try:
                return orig_ws(filename, variables, state)
            finally:
                _st["suspended"] -= 1
                if not _st["suspended"] and not state_consistent(state):
                    raise InvariantBroken("State inconsistent after warm_start()")

        lm.warm_start = warm_start_observed
        _st["installed"] = True
    return st


def gen_cases(tier: str, seed: int) -> list[dict[str, Any]]:
    L = 4 if tier == "quick" else 6
    cases = []
    for a, b in itertools.product(range(len(OPS)), repeat=2):
        cases.append(dict(kind="exhaustive", length=L, prefix=[a, b]))
    nr = 64 if tier == "quick" else 1600
    for i in range(nr):
        cases.append(dict(kind="random", seed=seed, idx=i, n=40, minlen=50, maxlen=300))
    # end to end: split output files, particle variables must be addressable by pid in every file, records keep pid order
    for i in range(12 if tier == "quick" else 600):
        cases.append(dict(kind="e2e", seed=seed, idx=i))
    return cases


class Shadow:
    """Reference: rows keyed by pid."""

    def __init__(self):
        self.present: list[int] = []  # pids in the instance arrays, in order
        self.inst: dict[int, dict[str, Any]] = {}
        self.part: dict[str, list[Any]] = dict(w=[], tag=[])
        self.npid = 0

    def append(self, rows: list[dict[str, Any]]):
        for r in rows:
            pid = self.npid
            self.npid += 1
            self.present.append(pid)
            self.inst[pid] = dict(X=r["X"], Y=r["Y"], Z=r["Z"], age=r["age"], alive=True, active=True)
            self.part["w"].append(r["w"])
            self.part["tag"].append(r["tag"])

    def compact(self):
        self.present = [p for p in self.present if self.inst[p]["alive"]]


def _apply(op: str, s, sh: Shadow, ctr: list[int], rng) -> None:
    """Apply one operation to the real state s and to the shadow sh."""
    n = len(sh.present)
    if op.startswith("app"):
        ctr[0] += 1
        base = float(ctr[0])
        if op == "app_scalar":
            s.append(X=base, Y=base + 0.25, Z=base + 0.5, age=base * 10, w=base * 100, tag=ctr[0])
            sh.append([dict(X=base, Y=base + 0.25, Z=base + 0.5, age=base * 10, w=base * 100, tag=ctr[0])])
        elif op == "app_array":
            k = 2 + (ctr[0] % 2)
            xs = [base + 0.01 * i for i in range(k)]
            s.append(X=np.array(xs), Y=np.array(xs) + 0.25, Z=[x + 0.5 for x in xs], age=np.array(xs) * 10,
                     w=np.array(xs) * 100, tag=np.arange(k) + 1000 * ctr[0])
            sh.append([dict(X=x, Y=x + 0.25, Z=x + 0.5, age=x * 10, w=x * 100, tag=i + 1000 * ctr[0]) for i, x in enumerate(xs)])
        elif op == "app_bcast":
            xs = [base + 0.01 * i for i in range(3)]
            s.append(X=np.array(xs), Y=base, Z=0.0, age=1.5, w=base, tag=ctr[0])
            sh.append([dict(X=x, Y=base, Z=0.0, age=1.5, w=base, tag=ctr[0]) for x in xs])
        elif op == "app_big":  # a release of 30 particles: afterwards a single death is a small fraction of the state
            xs = [base + 0.001 * i for i in range(30)]
            s.append(X=np.array(xs), Y=base, Z=1.0, age=0.5, w=base, tag=ctr[0])
            sh.append([dict(X=x, Y=base, Z=1.0, age=0.5, w=base, tag=ctr[0]) for x in xs])
        elif op == "app_empty":  # a release that yields no particle (all mult = 0): zero-length arrays
            ctr[0] -= 1
            e = np.array([], float)
            s.append(X=e, Y=e, Z=e, age=e, w=e, tag=np.array([], int))
        elif op == "app_len1":  # length-1 arrays broadcast against longer ones (instance and particle variable)
            xs = [base + 0.01 * i for i in range(3)]
            s.append(X=np.array(xs), Y=[base + 0.25, base + 0.26, base + 0.27], Z=[base + 0.5], age=np.array([2.5]), w=[base], tag=np.array([ctr[0]]))
            sh.append([dict(X=x, Y=base + 0.25 + 0.01 * i, Z=base + 0.5, age=2.5, w=base, tag=ctr[0]) for i, x in enumerate(xs)])
        else:  # defaults for age (0.0) and w (7.0)
            s.append(X=[base, base + 1], Y=base, Z=2.0, tag=ctr[0])
            sh.append([dict(X=base, Y=base, Z=2.0, age=0.0, w=7.0, tag=ctr[0]), dict(X=base + 1, Y=base, Z=2.0, age=0.0, w=7.0, tag=ctr[0])])
    elif op.startswith("kill"):
        if n == 0:
            return
        k = 0 if op == "kill_first" else (n - 1 if op == "kill_last" else (n // 2 if rng is None else int(rng.integers(n))))
        if op == "kill_mid" and rng is None:
            alive = s.alive.copy()
            alive[k] = False
            s["alive"] = alive  # item assignment of a whole array
        else:
            s.alive[k] = False  # in-place, as Tracker.update does
        sh.inst[sh.present[k]]["alive"] = False
    elif op == "deact_mid":  # a living particle is switched off (alive, inactive): it stays in the state
        if n == 0:
            return
        k = n // 2 if rng is None else int(rng.integers(n))
        s.active[k] = False
        sh.inst[sh.present[k]]["active"] = False
    elif op == "bad_app":  # a release whose arrays do not fit together is refused - and leaves the state as it was
        try:
            s.append(X=np.array([1.0, 2.0, 3.0]), Y=np.array([1.0, 2.0]), Z=0.0, age=1.0, w=1.0, tag=1)
        except Exception:  # noqa: BLE001
            pass
    elif op == "compact":
        s.compactify()
        sh.compact()
    elif op == "set_alias":
        # item assignment from arrays that live on: another variable's storage, and a buffer the caller keeps and reuses;
        # every variable must keep its own values afterwards
        s["age"] = s.X
        buf = np.array(s.Z, dtype=float) + 0.125
        s["Z"] = buf
        buf += 1000.0
        for p in sh.present:
            sh.inst[p]["age"] = sh.inst[p]["X"]
            sh.inst[p]["Z"] += 0.125
    elif op == "set_inst":
        s["X"] += 0.5  # in place first: must not leak into any other variable
        s["age"] = s.age + 1.0
        for p in sh.present:
            sh.inst[p]["age"] += 1.0
            sh.inst[p]["X"] += 0.5
    elif op == "set_part":
        s["w"] = s["w"] * 2.0
        sh.part["w"] = [x * 2.0 for x in sh.part["w"]]


def _compare(s, sh: Shadow) -> str | None:
    if s.npid != sh.npid:
        return f"npid {s.npid} != {sh.npid} particles released so far"
    if list(s.pid) != sh.present:
        return f"pids in state {list(s.pid)} != expected survivors {sh.present}"
    if len(s) != len(sh.present):
        return f"len(state) {len(s)} != {len(sh.present)}"
    for name in ("X", "Y", "Z", "age", "alive", "active"):
        got = list(s[name])
        want = [sh.inst[p][name] for p in sh.present]
        if len(got) != len(want) or any(g != w for g, w in zip(got, want)):
            return f"instance variable {name}: {got} != {want} (pids {sh.present})"
    for name in ("w", "tag"):
        got = list(s[name])
        if len(got) != len(sh.part[name]) or any(g != w for g, w in zip(got, sh.part[name])):
            return f"particle variable {name} (indexed by pid): {got} != {sh.part[name]}"
    return None


def _run_seq(st, seq: list[str], rng, cnt: dict, sit: dict) -> dict | None:
    s = st.State(instance_variables=dict(age=float), particle_variables=dict(w=float, tag=int), default_values=dict(age=0.0, w=7.0))
    sh = Shadow()
    ctr = [0]
    seen_compact_after_kill = False
    killed = False
    aliased = False
    for i, op in enumerate(seq):
        npid_before = s.npid
        try:
            _apply(op, s, sh, ctr, rng)
        except InvariantBroken as e:
            return dict(what=f"State invariant broken after operation {i} ({op})", seq=seq[: i + 1], err=str(e)[:300])
        except Exception as e:  # noqa: BLE001
            return dict(what=f"operation {i} ({op}) raised {type(e).__name__}: {e}", seq=seq[: i + 1])
        if s.npid < npid_before:
            return dict(what="npid decreased", seq=seq[: i + 1])
        cnt["ops"] = cnt.get("ops", 0) + 1
        msg = _compare(s, sh)
        cnt["shadow_comparisons"] = cnt.get("shadow_comparisons", 0) + 1
        if msg:
            return dict(what=f"after operation {i} ({op}): {msg}", seq=seq[: i + 1])
        if op == "set_alias" and len(sh.present):
            aliased = True
        if op == "set_inst" and aliased and len(sh.present):
            sit["in_place_update_after_assignment_from_another_variable"] = sit.get("in_place_update_after_assignment_from_another_variable", 0) + 1
        if op in ("compact", "set_alias") or op.startswith("app"):
            aliased = aliased and op == "set_alias"
        if op.startswith("kill") and len(sh.present):
            killed = True
        if op == "bad_app":
            sit["rejected_append_then_state_compared"] = sit.get("rejected_append_then_state_compared", 0) + 1
        if op == "compact" and killed and any(sh.inst[p_]["alive"] and not sh.inst[p_]["active"] for p_ in sh.present):
            sit["compactify_with_living_inactive_particles"] = sit.get("compactify_with_living_inactive_particles", 0) + 1
        if op == "compact" and killed and len(sh.present) >= 21:
            sit["compactify_of_few_dead_among_more_than_20"] = sit.get("compactify_of_few_dead_among_more_than_20", 0) + 1
        if op == "compact" and killed:
            seen_compact_after_kill = True
            sit["kill_then_compactify"] = sit.get("kill_then_compactify", 0) + 1
            killed = False
        if op.startswith("app") and seen_compact_after_kill:
            sit["append_after_compactify"] = sit.get("append_after_compactify", 0) + 1
            if len(set(sh.part["tag"])) > 1:
                sit["particle_variable_follow_pid"] = sit.get("particle_variable_follow_pid", 0) + 1
    return None


def run_e2e(case: dict[str, Any], wd: Path) -> dict[str, Any]:
    from vmon import outscn  # noqa: PLC0415

    rng = C.rng_for(case["seed"], 55, case["idx"])
    ns = int(rng.integers(6, 14))
    rel_steps = sorted({0} | {int(s) for s in rng.integers(0, ns - 1, size=3)})
    p = dict(idx=case["idx"], salt=case["idx"] + 500, dt=600, nsteps=ns, period=1, numrec=int(rng.choice([2, 3])), layout="sparse" if case["idx"] % 3 else "dense",
             reversed=False, reference=None, releases=[[s, int(rng.integers(1, 4))] for s in rel_steps],
             kills={int(rng.integers(1, ns - 1)): [0, 1], int(rng.integers(2, ns)): [2]}, pvars=True, lonlat=False, enc="f8", speed=0.08, continuous=0)
    if case["idx"] % 3 == 1:
        # output without particle variables, and a continuation warm-started from its first file: identifiers go on where they stopped
        p.update(pvars=False, warm=True, layout="sparse", warm_new_pvar=bool(case["idx"] % 2), numrec=3,
                 releases=[[0, 3], [1, 1], [ns - 2, 2]], kills={1: [0], ns - 1: [2]})  # a death before the restart record (step 2), a release after it
    if case["idx"] % 6 == 2:
        # everybody dies before the restart record, which is therefore empty; a later release must still get new identifiers and nobody comes back
        p.update(pvars=True, warm=True, layout="sparse", numrec=3, releases=[[0, 3], [ns - 2, 2]], kills={1: "all"})
    if case["idx"] % 2 == 0 and not p.get("warm"):
        p["deactivate"] = {1: [1], 2: [0]}  # switched off by the IBM, alive: they stay in the state and in the records while others die around them
    out = outscn.run_and_check(p, wd)
    V = list(out["V"])
    if p.get("warm") and out["cnt"].get("warm_runs"):
        # the continuation's records against the uninterrupted run's records of the same times
        from vmon.scenario import read_outputs  # noqa: PLC0415

        cold = {str(r.time): [int(q) for q in r.pid] for f in out["files"] for r in f.records}
        try:
            for f2 in read_outputs([wd / "warm.nc"]):
                for r in f2.records:
                    if str(r.time) in cold and [int(q) for q in r.pid] != cold[str(r.time)] and len(V) < 3:
                        V.append(C.viol(f"warm-started continuation: record at {r.time} holds pids {[int(q) for q in r.pid]}, the uninterrupted run {cold[str(r.time)]}: identifiers were not continued", params=p))
        except Exception as e:  # noqa: BLE001
            V.append(C.viol(f"output of the warm-started continuation not readable: {type(e).__name__}: {e}", params=p))
    if not out["res"].ok:
        V.append(C.viol(f"end-to-end run did not complete: {out['res'].exc}", params=p))
    sit = dict(e2e_split_files_checked=len(out["files"]), e2e_particle_values_compared=out["cnt"].get("particle_values_compared", 0),
               e2e_warm_start_with_a_new_defaulted_particle_variable=int(bool(p.get("warm_new_pvar") and out["cnt"].get("warm_runs"))),
               e2e_warm_start_from_a_file_whose_last_record_is_empty=int(out["cnt"].get("warm_runs_from_an_empty_last_record", 0)),
               e2e_warm_start_without_particle_variables=int(bool(p.get("warm") and not p.get("pvars", True) and out["cnt"].get("warm_runs"))))
    return C.result(V[:3], sit, out["cnt"], nontrivial=len(out["files"]) > 1, key=f"e2e|{case['idx']}", sample=dict(params=p, files=[f.path.name for f in out["files"]]))


def run_case(case: dict[str, Any], wd: Path) -> dict[str, Any]:
    if case["kind"] == "e2e":
        return run_e2e(case, wd)
    st = _install()
    V: list = []
    sit: dict[str, int] = {}
    cnt: dict[str, int] = {}
    n0 = _st["n"]
    nseq = 0
    nontriv = 0
    example = None
    if case["kind"] == "exhaustive":
        pre = [OPS[i] for i in case["prefix"]]
        for tail in itertools.product(OPS, repeat=case["length"] - 2):
            seq = pre + list(tail)
            nseq += 1
            before = sit.get("append_after_compactify", 0)
            bad = _run_seq(st, seq, None, cnt, sit)
            if sit.get("append_after_compactify", 0) > before:
                nontriv += 1
                example = example or seq
            if bad:
                V.append(C.viol(bad.pop("what"), **bad))
                if len(V) >= 3:
                    break
        # shorter sequences are prefixes of these: every prefix state is checked after each operation
    else:
        rng = C.rng_for(case["seed"], 5, case["idx"])
        for _ in range(case["n"]):
            L = int(rng.integers(case["minlen"], case["maxlen"] + 1))
            p = np.array([2, 2, 1, 1, 2, 2, 3, 3, 1, 1, 1, 1, 1], float)
            allops = OPS + OPS_MORE
            p = np.concatenate([p, [2.0, 1.0, 1.0]])
            seq = [allops[i] for i in rng.choice(len(allops), size=L, p=p / p.sum())]
            nseq += 1
            before = sit.get("append_after_compactify", 0)
            bad = _run_seq(st, seq, rng, cnt, sit)
            if sit.get("append_after_compactify", 0) > before:
                nontriv += 1
                example = example or seq[:12]
            if bad:
                bad["seq"] = bad["seq"][-25:]
                V.append(C.viol(bad.pop("what"), **bad))
                if len(V) >= 3:
                    break
    sit["invariant_evaluations"] = _st["n"] - n0
    sit["shadow_comparisons"] = cnt.get("shadow_comparisons", 0)
    cnt["sequences"] = nseq
    cnt["nontrivial_sequences"] = nontriv
    key = f"{case['kind']}|{case.get('prefix')}|{case.get('idx')}|{case.get('length')}"
    sample = dict(case=case, sequences=nseq, nontrivial_sequences=nontriv, example_sequence=example)
    return C.result(V, sit, cnt, nontrivial=nontriv > 0, key=key, sample=sample, distinct_count=nontriv)
