"""C07 Every scheduled output time is written for any duration, period, file split.

Monitor: bounded exhaustive enumeration of (number of steps, output period in steps, numrec) x layout x particle
variables x direction, every run under the C06 call-boundary monitor; plus file-set / file-lifecycle checks and a
pair monitor split vs unsplit."""

from __future__ import annotations

import itertools
from pathlib import Path
from typing import Any

import numpy as np

from vmon import common as C
from vmon import outscn
from vmon.scenario import tadd

LEVEL = "exploration"
TECHNIQUE = "runtime monitoring under bounded exhaustive configuration enumeration: exit status, file set, record times, dataset lifecycle hooks, split-vs-unsplit pair monitor, C06 snapshot monitor on every run"
LEVEL_TEXT = ("All cold-start runs with 1 <= steps <= 9 (thorough 22), 1 <= period <= 4 (7) steps, numrec in {0,1,2,3} ({0,1,2,3,4,7}), both layouts, with and without particle "
              "variables, forward and reversed, are executed for real; each must end normally with exactly one record per output time start +- k*period in [start, stop), files "
              "named by the documented numbering with numrec records each (last possibly fewer), all datasets closed and readable, and equal to the unsplit run record for record.")
LEVEL_NOTE = "Exhaustive only within the stated bounds (evidence sets exhaustive: true); durations are whole numbers of steps as the property's quantifier (number of steps) states."
RULE = ("case = (steps, period, layout, particle variables, direction); inside a case every numrec value is run and compared with the unsplit run. "
        "Non-trivial: steps % period != 0 or the records do not fill the last file; distinct by the tuple.")
MANDATORY = ["more_than_256_records_in_a_file", "output_period_of_a_day_or_more_as_ISO_8601_string", "start_time_not_a_multiple_of_the_output_period", "integer_particle_variable_in_output", "reference_time_decades_before_the_run", "lonlat_in_output_and_empty_state_output_time", "steps_not_multiple_of_period", "last_file_partial", "last_file_full", "single_record_run", "sparse", "dense", "reversed", "forward", "split_vs_unsplit_records", "output_times_with_empty_state", "prototype_with_number", "ncargs_data_model_given"]
EXHAUSTIVE = {"quick": True, "thorough": True}
ASSUMPTIONS = ["cold start only (warm start is C08)"]
TIMEOUT = {"quick": 900, "thorough": 3400}


def gen_cases(tier: str, seed: int) -> list[dict[str, Any]]:
    if tier == "quick":
        NS, PS, NR = range(1, 10), range(1, 5), [0, 1, 2, 3]
    else:
        NS, PS, NR = range(1, 23), range(1, 8), [0, 1, 2, 3, 4, 7]
    cases = []
    for ns, p, layout, pv, rev in itertools.product(NS, PS, ["sparse", "dense"], [True, False], [False, True]):
        cases.append(dict(nsteps=ns, period=p, layout=layout, pvars=pv, reversed=rev, numrecs=NR, seed=seed))
    # files with more than 256 records (unsplit, and split after 260 records)
    cases.append(dict(nsteps=300, period=1, layout="sparse", pvars=True, reversed=False, numrecs=[0, 260], seed=seed))
    if tier != "quick":
        cases.append(dict(nsteps=530, period=2, layout="dense", pvars=True, reversed=True, numrecs=[0, 257], seed=seed))
    return cases


# output file name prototypes: plain, and ending in _<digits> (the numbering then starts there and keeps the width), with base
# names that themselves end in digits or underscores
PROTOS = ["out.nc", "drift_2020_000.nc", "exp10_010.nc", "a_b__01.nc", "run_0031.nc", "o_9.nc", "v2.nc", "t_1_1.nc"]


def expected_names(numrec: int, nrec: int, proto: str = "out.nc") -> list[str]:
    """Documented numbering: cake.nc -> cake_000.nc, cake_001.nc, ...; cake_04.nc -> cake_04.nc, cake_05.nc, ..."""
    if not numrec:
        return [proto]
    nfiles = max(1, -(-nrec // numrec))
    stem = proto[:-3]
    k = len(stem)
    while k > 0 and stem[k - 1].isdigit():
        k -= 1
    if 0 < k < len(stem) and stem[k - 1] == "_":
        base, first, width = stem[:k - 1], int(stem[k:]), len(stem) - k
    else:
        base, first, width = stem, 0, 3
    return [base + "_" + str(first + n).rjust(width, "0") + ".nc" for n in range(nfiles)]


def run_case(case: dict[str, Any], wd: Path) -> dict[str, Any]:
    ns, P, rev = case["nsteps"], case["period"], case["reversed"]
    dt = 600
    long_iso = bool((ns + P) % 4 == 3)
    if long_iso:
        dt = 43200  # half-day steps: the output period is a day or more for P >= 2 and is written as an ISO 8601 period (PT36H ...)
    sgn = -1 if rev else 1
    V: list = []
    sit: dict[str, int] = {}
    cnt: dict[str, int] = {}
    nrec = len(range(0, ns, P))
    sit["steps_not_multiple_of_period"] = int(ns % P != 0)
    sit["single_record_run"] = int(nrec == 1)
    sit["more_than_256_records_in_a_file"] = int(nrec > 256)
    sit[case["layout"]] = 1
    sit["reversed" if rev else "forward"] = 1
    late = min(ns - 1, 2)
    if (ns + P) % 3 == 0 and ns > 2:
        # nothing released at the first output time(s) and everybody dead before the end: output times with an empty state
        rels, kills_ = [[late, 2]], {ns - 2: "all"}
        sit["output_times_with_empty_state"] = 1
    else:
        rels, kills_ = [[0, 2]] + ([[late, 1]] if late > 0 else []), ({max(0, ns - 2): [0]} if ns > 2 else {})
    proto = PROTOS[(ns * 7 + P * 3 + int(case["pvars"]) + 2 * int(rev)) % len(PROTOS)] if (ns + P) % 2 else "out.nc"
    sit["prototype_with_number"] = int(proto not in ("out.nc", "v2.nc"))
    # the ncargs option as every example configuration (and every translated LADiM 1 file) has it
    ncargs = dict(data_model=["NETCDF4_CLASSIC", "NETCDF3_CLASSIC", "NETCDF3_64BIT"][(ns + P) % 3]) if (ns * P) % 3 == 1 else None
    sit["ncargs_data_model_given"] = int(ncargs is not None)
    reference = [None, None, "1970-01-01T00:00:00", None, "1950-06-01T00:00:00"][(ns + P) % 5]  # also reference times decades before the run
    sit["reference_time_decades_before_the_run"] = int(reference is not None)
    # start times off the multiples of the output period (counted from 1970, or from any round time): the schedule is anchored at the start
    offset = [0, dt, 90, 3 * dt + 30, 0, 5 * dt][(ns + 3 * P + int(rev)) % 6]
    start = str(tadd(C.T0, offset))
    sit["start_time_not_a_multiple_of_the_output_period"] = int(offset % (P * dt) != 0)
    int_pvar = bool(case["pvars"] and (ns + P) % 2 == 0)
    sit["integer_particle_variable_in_output"] = int(int_pvar)
    sit["output_period_of_a_day_or_more_as_ISO_8601_string"] = int(long_iso and P * dt >= 86400)
    base = dict(period_iso=long_iso, start_offset=offset, int_pvar=int_pvar, salt=ns * 100 + P, dt=dt, filename=proto, ncargs=ncargs, nsteps=ns, period=P, layout=case["layout"], reversed=rev, reference=reference,
                releases=rels, kills=kills_, pvars=case["pvars"],
                lonlat=bool((ns + 2 * P) % 4 == 1), enc="f8", speed=0.07, continuous=0)
    sit["lonlat_in_output"] = int(base["lonlat"])
    sit["lonlat_in_output_and_empty_state_output_time"] = int(base["lonlat"] and bool(sit.get("output_times_with_empty_state")))
    unsplit = None
    want_times = [tadd(start, sgn * k * P * dt) for k in range(nrec)]
    for numrec in case["numrecs"]:
        p = dict(base, numrec=numrec)
        sub = wd / f"nr{numrec}"
        out = outscn.run_and_check(p, sub)
        res = out["res"]
        tag = dict(nsteps=ns, period=P, numrec=numrec, layout=case["layout"], pvars=case["pvars"], reversed=rev)
        cnt["runs"] = cnt.get("runs", 0) + 1
        if not res.ok:
            V.append(C.viol(f"run (steps={ns}, period={P} steps, numrec={numrec}) did not end normally: {res.exc}", tb=res.tb[-1200:], **tag))
            continue
        V.extend(out["V"][:2])
        for k, v in out["cnt"].items():
            cnt[k] = cnt.get(k, 0) + v
        files = out["files"]
        if out["still_open"]:
            V.append(C.viol(f"{out['still_open']} output dataset(s) still open after the run", **tag))
        names = sorted(q.name for q in sub.glob("*.nc"))  # everything the run left in its directory (the forcing lives in world/)
        if names != sorted(expected_names(numrec, nrec, proto)) or [f.path.name for f in files] != expected_names(numrec, nrec, proto):
            V.append(C.viol(f"output files {names} for the prototype {proto!r} and numrec={numrec}, documented numbering gives {expected_names(numrec, nrec, proto)}", **tag))
        allrecs = [r for f in files for r in f.records]
        times = [r.time for r in allrecs]
        if times != want_times:
            V.append(C.viol(f"record times {[str(t) for t in times]} != scheduled output times {[str(t) for t in want_times]}", **tag))
        if numrec:
            per = [len(f.records) for f in files]
            want_per = [numrec] * (nrec // numrec) + ([nrec % numrec] if nrec % numrec else [])
            if per != want_per:
                V.append(C.viol(f"records per file {per}, expected {want_per}", **tag))
            if nrec % numrec:
                sit["last_file_partial"] = sit.get("last_file_partial", 0) + 1
            else:
                sit["last_file_full"] = sit.get("last_file_full", 0) + 1
        if numrec == 0:
            unsplit = allrecs
            unsplit_files = files
        elif unsplit is not None and len(unsplit) == len(allrecs):
            for a, b in zip(unsplit, allrecs):
                sit["split_vs_unsplit_records"] = sit.get("split_vs_unsplit_records", 0) + 1
                same = a.time == b.time and len(a.pid) == len(b.pid) and np.all(a.pid == b.pid) and all(
                    np.array_equal(a.vars[k], b.vars[k]) for k in a.vars)
                if not same:
                    V.append(C.viol(f"split run (numrec={numrec}) record at {b.time} differs from the unsplit run's record", **tag))
                    break
            # particle variables of the last split file == those of the unsplit file
            if case["pvars"] and files and unsplit_files:
                for name, arr in unsplit_files[-1].pvars.items():
                    got = files[-1].pvars.get(name)
                    if got is None or len(got) != len(arr) or not np.allclose(got, arr, equal_nan=True):
                        V.append(C.viol(f"particle variable {name} of the last split file differs from the unsplit run", **tag))
                        break
        if len(V) > 3:
            break
    key = f"{ns}|{P}|{case['layout']}|{case['pvars']}|{rev}"
    sample = dict(steps=ns, period_steps=P, numrecs=case["numrecs"], layout=case["layout"], particle_variables=case["pvars"], reversed=rev,
                  scheduled_records=nrec)
    nontrivial = bool(ns % P != 0 or any(nr and nrec % nr for nr in case["numrecs"]))
    return C.result(V[:4], sit, cnt, nontrivial=nontrivial, key=key, sample=sample)
