"""C08 Restart transparency: a warm start continues as if the run never stopped.

Pair monitor at every crash point: an uninterrupted split run A is executed, then for every completed output file
k (except the last) a second real run is warm-started from that file; every record A wrote after the restart point
must have a record in the restarted run with the same decoded absolute time, the same pids and equal state,
the same particle variables and the same file name.  Known finding F17 (warm start re-uses pids when the most
recently released particles never appear in the warm-start file) is matched by a measured predicate."""

from __future__ import annotations

from pathlib import Path
from typing import Any

import numpy as np

from vmon import common as C
from vmon import outcheck
from vmon.hooks import Hooks
from vmon.scenario import read_outputs, run_scenario, tadd

LEVEL = "exploration"
TECHNIQUE = "runtime monitoring: crash-point pair monitor (uninterrupted split run vs a real warm-started run from every completed output file), records matched by decoded absolute time; known finding matched by a measured predicate"
LEVEL_TEXT = ("Scenarios with continuous release, deaths by IBM age limit and by leaving the grid, IBM state variables (age, weight fed by a scalar forcing), EF/RK2/RK4, time-dependent "
              "depth-varying flow, durations that are and are not multiples of the output period, numrec 1-4; every file boundary of the split run is a restart point (quick ~60, thorough ~3000 "
              "restart points) and all later records are compared (pids, positions, depth, age, weight, scalar, release_time particle variable, file names).")
LEVEL_NOTE = ("Tolerance 1e-9 with float64 forcing files, 2e-6 relative (f4 output precision) with float32 forcing files because u += dU accumulates in a different order after a restart. An additional final "
              "record at the stop time in the restarted run and a different default reference time are documented behaviour and are not judged.")
RULE = ("case = scenario; every completed file except the last is a restart point. Non-trivial restart point: particles are released and die after it; distinct by scenario parameters and file index.")
MANDATORY = ["restart_from_a_file_whose_last_record_is_empty", "packed_variable_in_the_restart_file", "time_reversed_run_restarted", "inactive_particles_carried_over_the_restart", "release_file_time_off_the_frequency_axis", "output_root_ending_in_digit_or_underscore", "forcing_frames_between_model_steps", "forcing_in_several_files", "restart_between_forcing_files", "restart_points", "records_compared", "newest_pids_dead_in_last_record", "newest_pids_dead_in_last_record_no_particle_variables", "new_release_after_restart", "death_after_restart", "left_grid", "duration_not_multiple_of_period", "scheme_EF", "scheme_RK2", "scheme_RK4",
             "particle_variable_compared", "file_names_compared"]
ASSUMPTIONS = ["diffusion off (as the property states)", "sparse layout (warm start reads particle_count)"]
TIMEOUT = {"quick": 1200, "thorough": 3500}


def gen_cases(tier: str, seed: int) -> list[dict[str, Any]]:
    n = 16 if tier == "quick" else 3000
    cases = [dict(seed=seed, idx=i) for i in range(n)]
    # restart points built to satisfy the F17 predicate (most recently released particles never appear in the warm-start file)
    cases += [dict(seed=seed, idx=10**6 + i, gap=True) for i in range(2 if tier == "quick" else 60)]
    # restart points where the newest particles are in the warm-start file but dead in its last record (older ones alive)
    cases += [dict(seed=seed, idx=2 * 10**6 + i, newest_dead=True) for i in range(4 if tier == "quick" else 200)]
    # restart points whose file ends with an empty record (everybody died before it), new particles being released later on
    cases += [dict(seed=seed, idx=3 * 10**6 + i, empty_rec=True) for i in range(3 if tier == "quick" else 120)]
    return cases


def build(case: dict[str, Any]):
    rng = C.rng_for(case["seed"], 8, case["idx"])
    dt = 600
    P = int(rng.choice([1, 2, 3]))
    numrec = int(rng.choice([1, 2, 3, 4]))
    nrec = int(rng.integers(2 * numrec + 1, 5 * numrec + 3))
    ns = (nrec - 1) * P + int(rng.integers(1, P + 1))  # multiples and non-multiples of the period
    imax, jmax, N = 22, 18, 3
    dx = 1000.0
    sp = float(rng.uniform(0.3, 0.7)) * dx / dt
    ang = float(rng.uniform(0, 2 * np.pi))
    nfr = ns // 3 + 3
    fr = [-1 + 3 * k for k in range(nfr + 1)]
    store = "f8" if case["idx"] % 4 else "f4"
    nfiles = [len(fr)]
    if case["idx"] % 3:  # two thirds of the scenarios: forcing split over files, so that restart points fall between two files
        nfiles = []
        left = len(fr)
        while left:
            c = int(rng.integers(1, min(left, 3) + 1))
            nfiles.append(c)
            left -= c
    offgrid = case["idx"] % 4 == 2 and not case.get("gap") and not case.get("newest_dead") and not case.get("empty_rec")
    frame_secs = [f * dt for f in fr]
    if offgrid:  # forcing interval not a multiple of dt: frames fall between model steps
        frame_secs = [-dt + k * 1000 for k in range((ns + 2) * dt // 1000 + 3)]
        nfiles = [len(frame_secs)] if len(nfiles) == 1 else [2] * (len(frame_secs) // 2) + ([len(frame_secs) % 2] if len(frame_secs) % 2 else [])
    world = dict(imax=imax, jmax=jmax, N=N, t0=C.T0, frames=frame_secs, files=nfiles, store=store,
                 vel=dict(kind="jet", u=sp * np.cos(ang), v=sp * np.sin(ang), shear=0.4, frame_amp=[float(x) for x in rng.uniform(0.6, 1.3, size=max(len(fr), 200))],
                          profile=[float(x) for x in rng.uniform(0.4, 1.0, size=N)]),
                 h=dict(kind="random", hmin=30.0, hmax=150.0, seed=case["idx"]), metric=dict(kind="uniform", dx=dx, dy=dx),
                 vert=dict(Vtransform=2, Vstretching=4, theta_s=3.0, theta_b=0.5, hc=10.0),
                 scalars=dict(temp=dict(kind="random", seed=case["idx"], lo=2.0, hi=12.0)), scalar_store="f8")
    freq = int(rng.choice([1, 1, 2]))
    if case["idx"] % 4 == 0:
        freq = 2  # these scenarios get a file time off the frequency axis (below)
    rows = []
    for k in range(int(rng.integers(2, 5))):
        near = rng.random() < 0.4
        x = float(np.round(rng.uniform(3.0, 5.0) if near else rng.uniform(7, imax - 8), 3))
        y = float(np.round(rng.uniform(3.0, 5.0) if near else rng.uniform(6, jmax - 7), 3))
        rows.append([C.T0, x, y, float(np.round(rng.uniform(0, 25), 2))])
    if rng.random() < 0.5:
        t2 = str(tadd(C.T0, int(rng.integers(2, max(3, ns // 2))) * freq * dt))
        rows.append([t2, 9.5, 8.5, 3.0])
    offaxis = False
    if freq == 2 and case["idx"] % 4 == 0 and ns > 6:
        # a later file time that is not on the release-frequency axis anchored at the first file time
        rows.append([str(tadd(C.T0, (2 * int(rng.integers(1, max(2, ns // 2 - 1))) + 1) * dt)), 10.5, 9.5, 4.0])
        rows.sort(key=lambda r: r[0])
        offaxis = True
    lifetime = int(rng.integers(3, max(4, ns // 2))) * dt
    scheme = ["EF", "RK2", "RK4"][case["idx"] % 3]
    if case.get("gap"):
        # releases at odd steps only, output at even steps; the last row of every release is lost through the western
        # boundary within one step, so it never appears in any record although it carries the highest pid
        P, freq, numrec = 2, 2, 2
        ns = 12 + 2 * (case["idx"] % 3)
        world["vel"] = dict(kind="const", u=-0.9 * dx / dt, v=0.0)
        world["frames"] = [-dt, (ns + 3) * dt]
        world["files"] = [2]
        t1 = str(tadd(C.T0, dt))
        rows = [[t1, 16.2, 8.4, 5.0], [t1, 14.7, 9.6, 8.0], [t1, 1.8, 7.5, 2.0]]
        lifetime = 100 * dt
    if case.get("newest_dead"):
        # every release tick adds long-lived interior particles first and, with the highest pids, particles that leave through
        # the western boundary two steps later; ticks every 3 steps, output every step, files of 3 (or 2) records
        P, freq, numrec = 1, 3, 3 - (case["idx"] % 2)
        ns = 9 + (case["idx"] % 4)
        world["vel"] = dict(kind="const", u=-0.9 * dx / dt, v=0.0)
        world["frames"] = [-dt, (ns + 3) * dt]
        world["files"] = [2]
        rows = [[C.T0, 17.2, 8.4, 5.0], [C.T0, 15.7, 9.6, 8.0], [C.T0, 3.0, 7.5, 2.0], [C.T0, 3.1, 6.5, 2.0]]
        lifetime = 100 * dt
    discrete = False
    if case.get("empty_rec"):
        P, numrec = 1, 2 + (case["idx"] % 2)
        ns = 10 + (case["idx"] % 3)
        world["vel"] = dict(kind="const", u=0.1 * dx / dt, v=0.05 * dx / dt)
        world["frames"] = [-dt, (ns + 3) * dt]
        world["files"] = [2]
        t7 = str(tadd(C.T0, 7 * dt))
        rows = [[C.T0, 7.2, 8.4, 5.0], [C.T0, 8.7, 9.6, 8.0], [C.T0, 9.0, 7.5, 2.0], [t7, 10.2, 6.5, 2.0], [t7, 11.4, 7.7, 12.0]]
        lifetime = 2 * dt  # alive in the records of their first two steps only
        discrete = True
    pvars = not (case.get("gap") and case["idx"] % 2 == 1) and not (case.get("newest_dead") and case["idx"] % 4 < 2) and not (not case.get("gap") and case["idx"] % 5 in (1, 4))
    pvars = pvars or bool(case.get("empty_rec"))
    run = dict(start=C.T0, stop=str(tadd(C.T0, ns * dt)), dt=dt, reference="2020-01-01T00:00:00" if case["idx"] % 2 else None, advection=scheme, extra_forcing=["temp"],
               release=dict(columns=["release_time", "X", "Y", "Z"], rows=rows, header=True, continuous=not discrete, freq=freq * dt),
               state=dict(instance_variables=dict(age="float", weight="float", temp="float"), particle_variables=dict(release_time="time") if pvars else {},
                          default_values=dict(age=0.0, weight=1.0, temp=0.0)),
               ibm=dict(module=C.REC_IBM, age=True, lifetime=lifetime, weight_from="temp", weight_from_position=True, log=False),
               output=dict(period=P * dt, numrec=numrec, instance=dict(pid="i4", X="f8", Y="f8", Z="f8", age="f8", weight="f8", temp="f8"), particle=dict(release_time="f8") if pvars else {}))
    if case["idx"] % 3 == 1:
        # a variable carried over the restart is stored packed (integer type + scale_factor; every age is a whole number of steps, so nothing is lost)
        run["output"]["instance"]["age"] = dict(datatype="i4", scale_factor=float(dt))
    inactive = bool(case["idx"] % 2 == 0)
    if inactive:
        # the IBM switches particles off (alive, not moved); the standard state variable `active` is part of the output so that a restart can carry it on
        run["ibm"]["deactivate_time"] = {str(tadd(C.T0, dt)): [0], str(tadd(C.T0, 2 * dt)): [1]}  # keyed by model time: a restarted run counts its steps anew
        run["output"]["instance"]["active"] = "i1"
    rev = bool(case["idx"] % 5 == 3 and not case.get("gap") and not case.get("newest_dead") and not case.get("empty_rec"))
    if rev:
        # the same set-up run backwards in time: every time t of the release table and of the IBM schedule is mirrored to T0 + ns*dt - (t - T0)
        end = np.datetime64(C.T0, "s") + np.timedelta64(ns * dt, "s")

        def mir(t):
            return str(end - (np.datetime64(t, "s") - np.datetime64(C.T0, "s")))

        for r_ in rows:
            r_[0] = mir(r_[0])
        rows.sort(key=lambda r_: r_[0], reverse=True)
        run.update(start=str(end), stop=C.T0, reversed=True)
        if "deactivate_time" in run["ibm"]:
            run["ibm"]["deactivate_time"] = {mir(k): v for k, v in run["ibm"]["deactivate_time"].items()}
    return dict(world=world, run=run), dict(P=P, numrec=numrec, ns=ns, dt=dt, scheme=scheme, store=store, freq=freq, lifetime=lifetime, reversed=rev, pvars=pvars, inactive=inactive, packed_age=bool(case["idx"] % 3 == 1), offgrid=bool(offgrid), offaxis=bool(offaxis and not case.get("gap") and not case.get("newest_dead")))


def decode_pvar(f, name):
    arr = np.asarray(f.pvars[name], float)
    u = f.pvar_units.get(name, "")
    if "since" in u:
        ref = np.datetime64(u.split("since")[1].strip(), "s")
        return np.array([(ref + np.timedelta64(int(round(x)), "s")).astype("int64") if np.isfinite(x) else -1 for x in arr])
    return arr


def run_case(case: dict[str, Any], wd: Path) -> dict[str, Any]:
    scn, par = build(case)
    V: list = []
    sit: dict[str, int] = {}
    cnt: dict[str, int] = {}
    desc = dict(idx=case["idx"], **par)
    snaps: list[dict[str, Any]] = []
    left = [0]
    with Hooks() as hk:
        from ladim.tracker import Tracker  # noqa: PLC0415

        root = ["out", "exp2", "a_b_", "x10"][case["idx"] % 4]  # output file roots, also ending in digits or an underscore
        scn["run"]["output"]["filename"] = f"{root}.nc"
        sit["output_root_ending_in_digit_or_underscore"] = int(root != "out")
        outcheck.snapshot_hook(hk, snaps)
        hk.wrap(Tracker, "update", lambda self: int(np.sum(self.modules["state"].alive)),
                lambda tok, res, self: left.__setitem__(0, left[0] + tok - int(np.sum(self.modules["state"].alive))))
        resA, confA, world = run_scenario(scn, wd / "A")
    sit[f"scheme_{par['scheme']}"] = 1
    sit["duration_not_multiple_of_period"] = int(par["ns"] % par["P"] != 0)
    sit["forcing_in_several_files"] = int(len(scn["world"]["files"]) > 1)
    sit["forcing_frames_between_model_steps"] = int(par.get("offgrid", False))
    sit["time_reversed_run_restarted"] = int(bool(par.get("reversed")))
    sit["packed_variable_in_the_restart_file"] = int(bool(par.get("packed_age")))
    sit["inactive_particles_carried_over_the_restart"] = int(bool(par.get("inactive")))
    sit["release_file_time_off_the_frequency_axis"] = int(par.get("offaxis", False))
    if not resA.ok:
        # the uninterrupted run is the reference; its own failures are C06/C07's subject
        return C.result([], sit, cnt, nontrivial=False, key=str(case["idx"]), sample=desc, void=True, note=f"uninterrupted run failed: {resA.exc}")
    filesA = read_outputs(resA.outputs)
    recA = [(f, r) for f in filesA for r in f.records]
    tol = 1e-9 if par["store"] == "f8" else 2e-6
    nrestart = 0
    for k, fk in enumerate(filesA[:-1]):
        if len(V) > 2:
            break
        nrestart += 1
        sit["restart_points"] = sit.get("restart_points", 0) + 1
        t_restart = fk.records[-1].time
        nrec_before = sum(len(f.records) for f in filesA[: k + 1])
        snap = snaps[nrec_before - 1]
        maxpid_file = max((int(r.pid.max()) for r in fk.records if len(r.pid)), default=-1)
        pid_gap = maxpid_file + 1 < snap["npid"]  # F17 predicate: released particles that never appear in the warm-start file
        sit["restart_points_with_pid_gap"] = sit.get("restart_points_with_pid_gap", 0) + int(pid_gap)
        last_max = int(fk.records[-1].pid.max()) if len(fk.records[-1].pid) else -1
        newest_dead = last_max + 1 < snap["npid"] and not pid_gap  # newest particles are in the file but no longer in its last record
        sit["restart_from_a_file_whose_last_record_is_empty"] = sit.get("restart_from_a_file_whose_last_record_is_empty", 0) + int(len(fk.records[-1].pid) == 0 and snap["npid"] > 0)
        sit["newest_pids_dead_in_last_record"] = sit.get("newest_pids_dead_in_last_record", 0) + int(newest_dead)
        sit["newest_pids_dead_in_last_record_no_particle_variables"] = sit.get("newest_pids_dead_in_last_record_no_particle_variables", 0) + int(newest_dead and fk.nparticle_dim == 0)
        fr_s = scn["world"]["frames"]
        cuts = np.cumsum(scn["world"]["files"])[:-1]
        t_rs = int((t_restart - np.datetime64(C.T0, "s")) / np.timedelta64(1, "s"))
        if any(fr_s[c - 1] < t_rs < fr_s[c] for c in cuts):
            sit["restart_between_forcing_files"] = sit.get("restart_between_forcing_files", 0) + 1
        run2 = dict(scn["run"], warm_start=dict(filename=str(fk.path), variables=(["release_time"] if par["pvars"] else []) + ["age", "weight", "temp"]))
        run2["output"] = dict(scn["run"]["output"], filename=f"{root}_{k + 1:03d}.nc")
        sub = wd / f"B{k}"
        resB, confB, _ = run_scenario(dict(world=None, run=run2), sub, world=world)
        d2 = dict(desc, restart_file=fk.path.name, restart_time=str(t_restart), pid_gap=bool(pid_gap))
        # known finding F17 (narrowed by the repair): the gap cannot be seen when the file stores no particle variable
        mech = "warm_start_pid_reuse_no_particle_variables" if (pid_gap and fk.nparticle_dim == 0) else None
        sit["restart_points_with_pid_gap_and_particle_variables"] = sit.get("restart_points_with_pid_gap_and_particle_variables", 0) + int(pid_gap and fk.nparticle_dim > 0)
        if not resB.ok:
            V.append(C.viol(f"run warm-started from {fk.path.name} did not complete: {resB.exc}", mechanism=mech, tb=resB.tb[-1500:], **d2))
            continue
        filesB = read_outputs(resB.outputs)
        byt = {}
        for f in filesB:
            for r in f.records:
                byt[r.time] = (f, r)
        later = [(f, r) for f, r in recA if (r.time < t_restart if par.get("reversed") else r.time > t_restart)]
        prev_pids = set(int(p) for p in fk.records[-1].pid)
        for fA, rA in later:
            if rA.time not in byt:
                V.append(C.viol(f"restart from {fk.path.name}: the uninterrupted run has a record at {rA.time}, the restarted run has none (records at {[str(t) for t in sorted(byt)][:8]})", mechanism=mech, **d2))
                break
            fB, rB = byt[rA.time]
            sit["records_compared"] = sit.get("records_compared", 0) + 1
            sit["file_names_compared"] = sit.get("file_names_compared", 0) + 1
            if fB.path.name != fA.path.name:
                V.append(C.viol(f"record at {rA.time} is in {fA.path.name} in the uninterrupted run but in {fB.path.name} after the restart from {fk.path.name}", mechanism=mech, **d2))
                break
            pa, pb = np.asarray(rA.pid), np.asarray(rB.pid)
            if len(pa) != len(pb) or np.any(pa != pb):
                V.append(C.viol(f"restart from {fk.path.name}: record at {rA.time} holds pids {pb[:12].tolist()} ({len(pb)}), the uninterrupted run {pa[:12].tolist()} ({len(pa)})", mechanism=mech, **d2))
                break
            cur = set(int(p) for p in pa)
            if cur - prev_pids:
                sit["new_release_after_restart"] = sit.get("new_release_after_restart", 0) + 1
            if prev_pids - cur:
                sit["death_after_restart"] = sit.get("death_after_restart", 0) + 1
            prev_pids = cur
            bad = None
            for name in ("X", "Y", "Z", "age", "weight", "temp") + (("active",) if par.get("inactive") else ()):
                a, b_ = np.asarray(rA.vars[name], float), np.asarray(rB.vars[name], float)
                cnt["values_compared"] = cnt.get("values_compared", 0) + len(a)
                if len(a) and np.max(np.abs(a - b_) / (1 + np.abs(a))) > tol:
                    j = int(np.argmax(np.abs(a - b_)))
                    bad = f"{name} of pid {int(pa[j])}: {b_[j]!r} after the restart vs {a[j]!r} uninterrupted"
                    break
            if bad:
                V.append(C.viol(f"restart from {fk.path.name}: record at {rA.time}: {bad}", mechanism=mech, **d2))
                break
            outcheck.check_record_pids(rB, V, "restarted run: ")
        else:
            # particle variables of the last common file
            lastA = filesA[-1]
            fb = [f for f in filesB if f.path.name == lastA.path.name]
            if fb and later and par["pvars"]:
                a = decode_pvar(lastA, "release_time")
                b_ = decode_pvar(fb[0], "release_time")
                sit["particle_variable_compared"] = sit.get("particle_variable_compared", 0) + 1
                n = min(len(a), len(b_))
                if len(b_) < len(a) or np.any(a[:n] != b_[:n]):
                    V.append(C.viol(f"restart from {fk.path.name}: particle variable release_time in {lastA.path.name} differs ({b_[:8].tolist()} vs {a[:8].tolist()})", mechanism=mech, **d2))
    # particles that left the grid in run A
    sit["left_grid"] = left[0]
    key = str(desc)
    sample = dict(desc, files=[f.path.name for f in filesA], records_per_file=[len(f.records) for f in filesA], restart_points=nrestart)
    return C.result(V[:3], sit, cnt, nontrivial=nrestart > 0, key=key, sample=sample, distinct_count=nrestart)
