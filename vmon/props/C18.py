"""C18 One simulation, three spellings: YAML v2, TOML v2, legacy v1 give the same run.

Pair monitor over rendered configurations: one scenario spec in the v1 vocabulary is rendered as a version-2 YAML
file, a version-2 TOML file (own minimal writer, parsed by ladim with tomli) and a version-1 YAML file; the three
real runs must produce the same output.  Further pairs: grid section omitted vs spelled out (forcing module + first
forcing file, also with a wildcard forcing file name), optional sections omitted vs empty."""

from __future__ import annotations

import datetime

from pathlib import Path
from typing import Any

import numpy as np
import yaml

from vmon import common as C
from vmon import world as W
from vmon.hooks import Hooks
from vmon.scenario import all_records, read_outputs, run_ladim, tadd, write_release

LEVEL = "exploration"
TECHNIQUE = "runtime monitoring: pair monitor over three renderings (YAML v2, TOML v2, YAML v1) of the same scenario and over defaulted-vs-explicit sections; outputs compared variable by variable"
LEVEL_TEXT = ("Scenarios restricted to the v1 vocabulary (discrete/continuous release, extra release columns as particle variables, release_time, IBM variables, diffusion with a "
              "harness-seeded rng, subgrid, single file or wildcard forcing) are run for real from each rendering; time, particle_count, pid, positions, IBM and particle variables must "
              "be identical. Runs with the grid section omitted / optional sections omitted must equal the explicit ones.")
LEVEL_NOTE = "The TOML text is produced by the harness's own writer and read by ladim through tomli; with diffusion > 0 the tracker's rng is re-seeded identically by the harness in every run so that outputs are comparable exactly."
RULE = ("case = scenario spec; renderings yaml2, toml2, yaml1 (+ grid-omitted, sections-omitted variants). Non-trivial: several release times or continuous release and moving water; distinct by spec.")
MANDATORY = ["release_by_lonlat_with_lonlat_in_the_output", "ibm_plugin_file_with_module_level_state", "diffusion_coefficient_of_exactly_one", "configuration_file_names_with_several_dots", "wildcard_with_question_mark", "reference_time_as_native_datetime_with_time_of_day", "extra_forcing_variable", "version_key_as_string_with_decimal_point", "v1_grid_file_omitted_pairs", "yaml_anchor_and_alias", "steps_not_multiple_of_output_period", "wildcard_names_of_unequal_length", "v1_file_names_in_files_section", "v1_discrete_with_release_frequency", "configure_dicts_compared", "plugin_gridforce", "version_key_omitted", "yaml2_vs_toml2", "yaml2_vs_yaml1", "grid_omitted_pairs", "wildcard_forcing", "optional_sections_omitted_pairs", "continuous", "discrete", "subgrid", "diffusion_seeded",
             "particle_variable_column", "values_compared"]
ASSUMPTIONS = ["only what the v1 vocabulary can express"]
MIN_CASES_PER_PROCESS = 4  # several runs share one interpreter: state leaking between runs (module caches, shared defaults) becomes observable
TIMEOUT = {"quick": 900, "thorough": 3400}


def gen_cases(tier: str, seed: int) -> list[dict[str, Any]]:
    n = 32 if tier == "quick" else 5000
    return [dict(seed=seed, idx=i) for i in range(n)]


# ------------------------------------------------------------------ minimal TOML writer


def _tv(v: Any) -> str:
    if isinstance(v, bool):
        return "true" if v else "false"
    if isinstance(v, (int, np.integer)):
        return str(int(v))
    if isinstance(v, (float, np.floating)):
        return repr(float(v))
    if isinstance(v, datetime.datetime):
        return v.isoformat()  # a native TOML date-time
    if isinstance(v, str):
        return '"' + v.replace("\\", "\\\\").replace('"', '\\"') + '"'
    if isinstance(v, (list, tuple)):
        return "[" + ", ".join(_tv(x) for x in v) + "]"
    raise TypeError(type(v))


def to_toml(d: dict[str, Any], prefix: str = "") -> str:
    lines = []
    scalars = {k: v for k, v in d.items() if not isinstance(v, dict)}
    tables = {k: v for k, v in d.items() if isinstance(v, dict)}
    for k, v in scalars.items():
        if v is None:
            continue
        lines.append(f"{k} = {_tv(v)}")
    for k, v in tables.items():
        name = f"{prefix}{k}"
        lines.append("")
        lines.append(f"[{name}]")
        lines.append(to_toml(v, name + "."))
    return "\n".join(lines)


# ------------------------------------------------------------------ scenario and renderings


def spec_for(case: dict[str, Any]) -> dict[str, Any]:
    rng = C.rng_for(case["seed"], 18, case["idx"])
    dt = int(rng.choice([300, 600]))
    ns = int(rng.integers(4, 12))
    cont = bool(case["idx"] % 2)
    nfiles = int(rng.choice([1, 2, 3]))
    return dict(dt=dt, ns=ns, cont=cont, freq=int(rng.integers(1, 3)), subgrid=[2, 17, 1, 13] if case["idx"] % 3 == 0 else None,
                diffusion=float(rng.choice([0.0, 0.0, 25.0, 1.0])), diff_as_int=bool(case["idx"] % 2), lonlat=bool(case["idx"] % 5 == 4), stateful_ibm=bool(case["idx"] % 2 == 0), dotted_names=int(case["idx"] % 3), advection=str(rng.choice(["EF", "RK2", "RK4"])),
                nfiles=nfiles, wildcard=bool(nfiles > 1 or rng.random() < 0.5), reference=("2019-12-31T12:30:00" if case["idx"] % 4 == 1 else "2019-12-31T00:00:00") if (rng.random() < 0.5 or case["idx"] % 4 == 1) else None,
                cohort=bool(rng.random() < 0.6), ibm=bool(rng.random() < 0.5 or case["idx"] % 4 == 3), xf=bool(case["idx"] % 4 == 3), outper_spelling=int(rng.integers(2)), seed=int(rng.integers(10**6)),
                outper_mult=2 if (case["idx"] // 2) % 2 else 1, version_key=bool(rng.random() < 0.5 or case["idx"] % 4 == 2), vsp=case["idx"] % 4, plugin_gridforce=bool(case["idx"] % 4 == 1), odd_names=bool(nfiles > 1 and case["idx"] % 3 != 2))


def make_files(sp: dict[str, Any], wd: Path):
    dt, ns = sp["dt"], sp["ns"]
    nfr = 2 * sp["nfiles"] + 1
    gap = (ns + 2) // (nfr - 1) + 1
    fr = [-1 + gap * k for k in range(nfr)]
    counts = [nfr]
    if sp["nfiles"] == 2:
        counts = [nfr // 2, nfr - nfr // 2]
    elif sp["nfiles"] == 3:
        counts = [2, 2, nfr - 4]
    spd = 0.3 * 1000.0 / dt
    w = W.write_world(wd / "world", dict(imax=20, jmax=15, N=3, t0=C.T0, frames=[f * dt for f in fr], files=counts,
                                          vel=dict(kind="gyre", A=spd, kx=0.4, ky=0.45, ratio=0.8, frame_amp=[1.0 + 0.1 * k for k in range(nfr)]),
                                          metric=dict(kind="uniform", dx=1000.0, dy=1000.0), h=dict(kind="flat", h=80.0),
                                          lonlat=dict(kind="index", lon0=5.0, dlon=0.02, lat0=60.0, dlat=0.01),
                                          scalars=dict(temp=dict(kind="xyt", a=5.0, b=0.3, c=-0.2, e=0.0)) if sp.get("xf") else {},
                                          # names of unequal length: the first file in sorted order is not the shortest name
                                          file_names=(["f_0001_spinup.nc", "f_0002.nc", "f_0010.nc"][:len(counts)] if sp["odd_names"] else None)))
    from netCDF4 import Dataset  # noqa: PLC0415

    for fn in w["files"][1:]:
        with Dataset(fn, "r+") as nc:
            nc.variables["mask_rho"][:] = 0.0
            nc.variables["h"][:] = 7.0
    (wd / "gf_plugin.py").write_text(
        "from ladim.ROMS import Forcing  # noqa: F401\nfrom ladim.ROMS import Grid as _Grid\n\n\nclass Grid(_Grid):\n"
        "    def metric(self, X, Y):\n        dx, dy = super().metric(X, Y)\n        return 2.0 * dx, 2.0 * dy\n")
    rng = np.random.default_rng([sp["seed"], 5])
    names = ["release_time", "mult", "X", "Y", "Z"] + (["cohort"] if sp["cohort"] else [])
    rows = []
    steps = [0, 0] + ([] if sp["cont"] else [int(s) for s in rng.integers(1, max(2, ns - 1), size=2)])
    if sp["cont"]:
        steps += [2 * sp["freq"]]
    for k, s in enumerate(sorted(steps)):
        r: list[Any] = [str(tadd(C.T0, s * dt)), int(rng.integers(1, 3)), float(np.round(rng.uniform(6, 12), 3)), float(np.round(rng.uniform(4, 9), 3)), float(np.round(rng.uniform(0, 40), 1))]
        if sp["cohort"]:
            r.append(float(k + 1))
        rows.append(r)
    if sp.get("lonlat"):
        # release positions given as longitude/latitude, which are also written to the output (examples/latlon)
        names = ["lon" if n_ == "X" else "lat" if n_ == "Y" else n_ for n_ in names]
        for r in rows:
            r[2], r[3] = float(np.round(5.0 + 0.02 * r[2], 6)), float(np.round(60.0 + 0.01 * r[3], 6))
    rls = wd / "release.rls"
    write_release(rls, names, rows, header=False)
    return w, rls, names


def renderings(sp: dict[str, Any], wd: Path, w, rls: Path, names: list[str]) -> dict[str, dict[str, Any]]:
    dt, ns = sp["dt"], sp["ns"]
    start, stop = C.T0, str(tadd(C.T0, ns * dt))
    forcing_file = w["pattern"] if sp["wildcard"] else str(w["files"][0])
    if sp["wildcard"] and not sp["odd_names"] and sp["vsp"] % 2:
        forcing_file = str(Path(w["pattern"]).parent / "f_00?.nc")  # the other wildcard character
    opdt = dt * sp.get("outper_mult", 1)
    outper_v = [opdt, "s"] if sp["outper_spelling"] == 0 else opdt
    ivars = ["pid", "X", "Y", "Z"] + (["age"] if sp["ibm"] else []) + (["temp"] if sp.get("xf") else []) + (["lon", "lat"] if sp.get("lonlat") else [])
    pvars = ["release_time"] + (["cohort"] if sp["cohort"] else [])
    attrs = dict(pid=dict(long_name="particle identifier"), X=dict(long_name="X"), Y=dict(long_name="Y"), Z=dict(long_name="depth", units="m"),
                 age=dict(long_name="age"), temp=dict(long_name="temperature"), lon=dict(long_name="longitude"), lat=dict(long_name="latitude"), release_time=dict(long_name="release time", units="seconds since reference_time"), cohort=dict(long_name="cohort"))
    nct = dict(pid="i4", X="f8", Y="f8", Z="f8", age="f8", temp="f8", lon="f8", lat="f8", release_time="f8", cohort="f8")
    shared = bool(sp["seed"] % 2)
    if shared:
        # X and Y described by one and the same mapping object: the YAML files then carry an anchor and an alias (&id001 / *id001)
        attrs["X"] = attrs["Y"] = dict(long_name="grid coordinate")

    def out(name):
        return str(wd / f"out_{name}.nc")

    gfmod = str(wd / "gf_plugin.py") if sp["plugin_gridforce"] else "ladim.ROMS"
    # ---- version 2 (natural spelling)
    vsp = sp["vsp"]  # the version key as integer, float, or (quoted) string with and without a decimal point, as in examples/line/line.toml
    v2: dict[str, Any] = dict(version=[2, 2.0, "2.0", "2"][vsp]) if sp["version_key"] else {}
    v2["time"] = dict(start=start, stop=stop, dt=dt)
    if sp["reference"]:
        v2["time"]["reference"] = sp["reference"]
    gridfile = str(w["gridfile"]) if sp["seed"] % 3 == 0 else str(w["files"][0])  # a grid file of its own, or the first forcing file
    v2["grid"] = dict(module=gfmod, filename=gridfile)
    if sp["subgrid"]:
        v2["grid"]["subgrid"] = sp["subgrid"]
    v2["forcing"] = dict(module=gfmod, filename=forcing_file)
    v2["state"] = dict(instance_variables=dict(**(dict(age="float") if sp["ibm"] else {}), **(dict(lon="float", lat="float") if sp.get("lonlat") else {})),
                       particle_variables=dict(release_time="time", **({"cohort": "float"} if sp["cohort"] else {})),
                       default_values=dict(age=0) if sp["ibm"] else {})
    if sp.get("xf"):  # a scalar forcing field carried by the particles (v1: gridforce.extra_forcing + ibm.variables)
        v2["forcing"]["extra_forcing"] = ["temp"]
        v2["state"]["instance_variables"]["temp"] = "float"
        v2["state"]["default_values"]["temp"] = 0
    v2["tracker"] = dict(advection=sp["advection"])
    dval = int(sp["diffusion"]) if (sp["diffusion"] == 1.0 and sp.get("diff_as_int")) else sp["diffusion"]  # a coefficient of exactly 1 m2/s, written 1.0 or 1
    if sp["diffusion"]:
        v2["tracker"]["diffusion"] = dval
    v2["release"] = dict(release_file=str(rls), names=names)
    if sp["cont"]:
        v2["release"].update(continuous=True, release_frequency=sp["freq"] * dt)
    ibm_mod = C.REC_IBM
    if sp["ibm"] and sp.get("stateful_ibm"):
        # the user's IBM keeps module-level state (a call counter that feeds the age): every run loads the file afresh, so every spelling starts it from zero
        ibm_file = wd / "counting_ibm.py"
        ibm_file.write_text("from vmon.plugins.rec_ibm import IBM as _IBM\n\nCALLS = 0\n\n\nclass IBM(_IBM):\n    def update(self):\n        global CALLS\n        CALLS += 1\n"
                            "        super().update()\n        st = self.state\n        st['age'] = st['age'] + 0.001 * CALLS\n")
        ibm_mod = str(ibm_file)
    v2["ibm"] = dict(module=ibm_mod, age=True, log=False) if sp["ibm"] else {}
    v2["output"] = dict(filename=out("yaml2"), output_period=outper_v,
                        instance_variables={k: dict(encoding=dict(datatype=nct[k]), attributes=attrs[k]) for k in ivars},
                        particle_variables={k: dict(encoding=dict(datatype=nct[k]), attributes=attrs[k]) for k in pvars})
    # ---- version 1
    v1: dict[str, Any] = dict(
        time_control=dict(start_time=start, stop_time=stop),
        files=dict(particle_release_file=str(rls), output_file=out("yaml1")),
        gridforce=dict(module=gfmod if sp["plugin_gridforce"] else "ladim1.gridforce.ROMS", input_file=forcing_file, gridfile=gridfile),
        numerics=dict(dt=dt, advection=sp["advection"], diffusion=dval),
        particle_release=dict(variables=names, particle_variables=pvars, release_time="time"),
        output_variables=dict(outper=outper_v, format="NETCDF4", instance=ivars, particle=pvars),
    )
    if sp["reference"]:
        # the legacy file carries the reference time as a native YAML timestamp (no quotes), with its time of day
        v1["time_control"]["reference_time"] = datetime.datetime.fromisoformat(sp["reference"]) if sp["reference"].endswith("12:30:00") else sp["reference"]
    if sp["subgrid"]:
        v1["gridforce"]["subgrid"] = sp["subgrid"]
    if sp["cohort"]:
        v1["particle_release"]["cohort"] = "float"
    if sp["cont"]:
        v1["particle_release"].update(release_type="continuous", release_frequency=sp["freq"] * dt)
    elif sp["seed"] % 2:
        # valid v1: a discrete release that still carries a release_frequency entry (the docs show both keys side by side)
        v1["particle_release"].update(release_type="discrete", release_frequency=sp["freq"] * dt)
    if sp["ibm"]:
        v1["ibm"] = dict(ibm_module=ibm_mod, variables=["age"] + (["temp"] if sp.get("xf") else []), age=True, log=False)
    if sp.get("xf"):
        v1["gridforce"]["extra_forcing"] = ["temp"]
    for k in ivars + pvars:
        v1["output_variables"][k] = dict(ncformat=nct[k], **attrs[k])
    if shared:
        v1["output_variables"]["Y"] = v1["output_variables"]["X"]
    if sp["seed"] % 3 == 0:
        # legacy layout: input_file and gridfile live in the `files` section (not in gridforce)
        v1["files"]["input_file"] = v1["gridforce"].pop("input_file")
        v1["files"]["gridfile"] = v1["gridforce"].pop("gridfile")
    if sp["version_key"]:
        v1 = dict(version=[1, 1.0, "1.0", "1"][vsp], **v1)
    return dict(yaml2=v2, yaml1=v1)


def norm_conf(c: dict[str, Any]) -> dict[str, Any]:
    """Semantic content of a configure() result (everything but the output file name)."""
    from ladim.timekeeper import normalize_period  # noqa: PLC0415

    one = np.timedelta64(1, "s")
    rel = c["release"]
    cont = bool(rel.get("continuous"))
    out = c["output"]
    return dict(
        start=str(np.datetime64(c["time"]["start"], "s")), stop=str(np.datetime64(c["time"]["stop"], "s")), dt=int(normalize_period(c["time"]["dt"]) / one),
        reference=str(np.datetime64(c["time"]["reference"], "s")) if c["time"].get("reference") else None,
        grid_module=c["grid"].get("module") or "ladim.ROMS", grid_file=str(Path(str(c["grid"]["filename"])).resolve()), subgrid=list(c["grid"]["subgrid"]) if c["grid"].get("subgrid") else None,
        forcing_module=c["forcing"].get("module") or "ladim.ROMS", forcing_file=str(c["forcing"]["filename"]), advection=c["tracker"].get("advection"),
        diffusion=float(c["tracker"].get("diffusion") or 0.0), release_file=str(rel["release_file"]), names=list(rel.get("names") or []), continuous=cont,
        release_frequency=int(normalize_period(rel["release_frequency"]) / one) if cont else None,
        instance_variables=sorted((c["state"].get("instance_variables") or {}).items()), particle_variables=sorted((c["state"].get("particle_variables") or {}).items()),
        ibm_module=(c.get("ibm") or {}).get("module"), output_period=int(normalize_period(out["output_period"]) / one),
        out_instance=sorted((k, v["encoding"]["datatype"]) for k, v in out["instance_variables"].items()),
        out_particle=sorted((k, v["encoding"]["datatype"]) for k, v in (out.get("particle_variables") or {}).items()),
        extra_forcing=sorted(c["forcing"].get("extra_forcing") or []), skip_initial=bool(out.get("skip_initial", False)), warm_start_file=(c.get("warm_start") or {}).get("filename"))


def read_all(path: Path):
    files = read_outputs([path])
    recs = all_records(files)
    return files[0], recs


def same_output(a, b) -> str | None:
    fa, ra = a
    fb, rb = b
    if len(ra) != len(rb):
        return f"{len(ra)} vs {len(rb)} records"
    for x, y in zip(ra, rb):
        if x.time != y.time:
            return f"record times {x.time} vs {y.time}"
        if len(x.pid) != len(y.pid) or np.any(x.pid != y.pid):
            return f"record at {x.time}: pids {x.pid.tolist()} vs {y.pid.tolist()}"
        if set(x.vars) != set(y.vars):
            return f"instance variables {sorted(x.vars)} vs {sorted(y.vars)}"
        for k in x.vars:
            if not np.array_equal(x.vars[k], y.vars[k]):
                return f"record at {x.time}: {k} = {np.asarray(x.vars[k])[:5].tolist()} vs {np.asarray(y.vars[k])[:5].tolist()}"
    if set(fa.pvars) != set(fb.pvars):
        return f"particle variables {sorted(fa.pvars)} vs {sorted(fb.pvars)}"
    for k in fa.pvars:
        if not np.array_equal(fa.pvars[k], fb.pvars[k], equal_nan=True):
            return f"particle variable {k}: {fa.pvars[k][:6].tolist()} vs {fb.pvars[k][:6].tolist()}"
    if fa.time_units != fb.time_units:
        return f"time units {fa.time_units!r} vs {fb.time_units!r}"
    return None


def run_case(case: dict[str, Any], wd: Path) -> dict[str, Any]:
    from ladim.tracker import Tracker  # noqa: PLC0415

    sp = spec_for(case)
    wd.mkdir(parents=True, exist_ok=True)
    w, rls, names = make_files(sp, wd)
    R = renderings(sp, wd, w, rls, names)
    V: list = []
    sit: dict[str, int] = {}
    cnt: dict[str, int] = {}
    desc = dict(idx=case["idx"], **{k: sp[k] for k in ("dt", "ns", "cont", "subgrid", "diffusion", "advection", "nfiles", "wildcard", "cohort", "ibm", "reference")})
    sit["continuous" if sp["cont"] else "discrete"] = 1
    sit["subgrid"] = int(sp["subgrid"] is not None)
    sit["wildcard_forcing"] = int(sp["wildcard"])
    sit["wildcard_with_question_mark"] = int(sp["wildcard"] and not sp["odd_names"] and sp["vsp"] % 2 == 1)
    sit["yaml_anchor_and_alias"] = int(sp["seed"] % 2)
    sit["steps_not_multiple_of_output_period"] = int(sp["ns"] % sp.get("outper_mult", 1) != 0)
    sit["wildcard_names_of_unequal_length"] = int(sp["wildcard"] and sp["odd_names"])
    sit["particle_variable_column"] = int(sp["cohort"])
    sit["diffusion_seeded"] = int(sp["diffusion"] > 0)
    sit["ibm_plugin_file_with_module_level_state"] = int(bool(sp["ibm"] and sp.get("stateful_ibm")))
    sit["release_by_lonlat_with_lonlat_in_the_output"] = int(bool(sp.get("lonlat")))
    sit["diffusion_coefficient_of_exactly_one"] = int(sp["diffusion"] == 1.0)
    sit["configuration_file_names_with_several_dots"] = int(sp.get("dotted_names", 0) > 0)

    def seeded_init(tok, res, self, *a, **k):
        self.rng = np.random.default_rng(sp["seed"])

    confs: dict[str, Any] = {}

    def run(name: str, conf: dict[str, Any], fmt: str):
        from ladim.configure import configure  # noqa: PLC0415

        # configuration file names with further dots in them (ladim.v2.toml, run.2020-03-01.yaml): the last suffix tells the format
        stem = name + ["", ".v2", ".2020-03-01"][sp.get("dotted_names", 0)]
        path = wd / (f"{stem}.toml" if fmt == "toml" else f"{stem}.yaml")
        if fmt == "toml":
            path.write_text(to_toml(conf) + "\n")
        else:
            with open(path, "w", encoding="utf-8") as f:
                yaml.safe_dump(conf, f, sort_keys=False)
        try:
            import os  # noqa: PLC0415

            old = os.getcwd()
            os.chdir(wd)
            try:
                confs[name] = norm_conf(configure(path))
            finally:
                os.chdir(old)
        except BaseException as e:  # noqa: BLE001
            confs[name] = f"configure failed: {type(e).__name__}: {e}"
        with Hooks() as hk:
            hk.wrap(Tracker, "__init__", None, seeded_init)
            res = run_ladim(path, cwd=wd)
        cnt["runs"] = cnt.get("runs", 0) + 1
        return res

    outs: dict[str, Any] = {}
    import copy  # noqa: PLC0415

    variants: list[tuple[str, dict[str, Any], str]] = [("yaml2", R["yaml2"], "yaml"), ("yaml1", R["yaml1"], "yaml")]
    t2 = copy.deepcopy(R["yaml2"])
    t2["output"]["filename"] = str(wd / "out_toml2.nc")
    if sp["reference"] and sp["reference"].endswith("12:30:00"):
        t2["time"]["reference"] = datetime.datetime.fromisoformat(sp["reference"])  # native TOML date-time with a time of day
    variants.append(("toml2", t2, "toml"))
    g = copy.deepcopy(R["yaml2"])  # grid section omitted: forcing module + first forcing file
    g["output"]["filename"] = str(wd / "out_nogrid.nc")
    if sp["subgrid"]:
        g["grid"] = dict(subgrid=sp["subgrid"])
    else:
        del g["grid"]
    variants.append(("nogrid", g, "yaml"))
    if not sp["plugin_gridforce"]:
        g1 = copy.deepcopy(R["yaml1"])  # the legacy spelling without a grid file: the first forcing file (also behind a wildcard) is the grid file
        g1["files"]["output_file"] = str(wd / "out_yaml1_nogrid.nc")
        g1["gridforce"].pop("gridfile", None)
        g1["files"].pop("gridfile", None)
        variants.append(("yaml1_nogrid", g1, "yaml"))
    if not sp["ibm"]:
        o = copy.deepcopy(R["yaml2"])  # optional sections omitted
        o["output"]["filename"] = str(wd / "out_omit.nc")
        for sec in ("ibm", "warm_start"):
            o.pop(sec, None)
        if not sp["cohort"]:
            pass
        e = copy.deepcopy(R["yaml2"])  # ... versus explicitly empty
        e["output"]["filename"] = str(wd / "out_empty.nc")
        e["ibm"] = {}
        e["warm_start"] = {}
        variants += [("omit", o, "yaml"), ("empty", e, "yaml")]
    for name, conf, fmt in variants:
        res = run(name, conf, fmt)
        if not res.ok:
            V.append(C.viol(f"rendering '{name}' of the scenario did not run: {res.exc}", tb=res.tb[-1500:], **desc))
            continue
        outs[name] = read_all(Path(conf["output"]["filename"] if "output" in conf else conf["files"]["output_file"]))
    # --- the configuration dictionaries returned by configure() carry the same simulation
    ref_conf = confs.get("yaml2")
    for other in ("toml2", "yaml1", "nogrid", "yaml1_nogrid", "omit", "empty"):
        if other in confs and isinstance(ref_conf, dict):
            sit["configure_dicts_compared"] = sit.get("configure_dicts_compared", 0) + 1
            if not isinstance(confs[other], dict):
                continue  # reported through the failed run
            want = dict(ref_conf)
            if other in ("nogrid", "yaml1_nogrid"):  # an omitted grid section means: forcing module + first forcing file
                want["grid_file"] = str(Path(str(w["files"][0])).resolve())
            diff = {k: (want[k], confs[other][k]) for k in want if want[k] != confs[other][k]}
            if diff:
                V.append(C.viol(f"configure() of the {other} spelling describes a different simulation than the YAML v2 spelling: {str(diff)[:500]}", **desc))
    sit["plugin_gridforce"] = int(sp["plugin_gridforce"])
    sit["v1_file_names_in_files_section"] = int(sp["seed"] % 3 == 0)
    sit["v1_discrete_with_release_frequency"] = int(not sp["cont"] and sp["seed"] % 2 == 1)
    sit["version_key_omitted"] = int(not sp["version_key"])
    sit["reference_time_as_native_datetime_with_time_of_day"] = int(bool(sp["reference"]) and sp["reference"].endswith("12:30:00"))
    sit["extra_forcing_variable"] = int(bool(sp.get("xf")))
    sit["version_key_as_string_with_decimal_point"] = int(sp["version_key"] and sp["vsp"] == 2)
    base = outs.get("yaml2")
    if base is not None:
        for other, sname in (("toml2", "yaml2_vs_toml2"), ("yaml1", "yaml2_vs_yaml1"), ("nogrid", "grid_omitted_pairs"), ("yaml1_nogrid", "v1_grid_file_omitted_pairs")):
            if other in outs:
                msg = same_output(base, outs[other])
                sit[sname] = sit.get(sname, 0) + 1
                cnt["values_compared"] = cnt.get("values_compared", 0) + sum(len(r.pid) * len(r.vars) for r in base[1])
                if msg:
                    V.append(C.viol(f"the same simulation spelled as {other} differs from the YAML v2 run: {msg}", **desc))
        if "omit" in outs and "empty" in outs:
            sit["optional_sections_omitted_pairs"] = 1
            for o2 in ("omit", "empty"):
                msg = same_output(base, outs[o2])
                if msg:
                    V.append(C.viol(f"optional sections {o2} changes the run: {msg}", **desc))
    sit["values_compared"] = cnt.get("values_compared", 0)
    sizes = [len(r.pid) for r in base[1]] if base else []
    return C.result(V[:4], sit, cnt, nontrivial=len(set(sizes)) > 1 or sp["cont"], key=str(desc), sample=dict(desc, record_sizes=sizes, renderings=[v[0] for v in variants]))
