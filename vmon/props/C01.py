"""C01 Advection integrates the velocity field with the scheme's order of accuracy.

Monitors: (A) one-step reference-model monitor: the real Tracker.update is driven with a recording analytic
plug-in forcing; the stage positions/fractional times it requests and the new positions are compared with an
independent EF / midpoint-RK2 / classical-RK4 step; (B) bounded convergence ladder dt, dt/2, dt/4, dt/8 against
a fine reference flow map, for the Tracker and for ladim.analytical.get_velocity1/2/4; (C) end-to-end runs of
ladim.main on ROMS files with fields linear in x, y, t (exactly representable by the interpolation)."""

from __future__ import annotations

from pathlib import Path
from typing import Any

import numpy as np

from vmon import common as C
from vmon import rec, ref
from vmon.scenario import all_records, read_outputs, run_scenario, tadd

LEVEL = "exploration"
TECHNIQUE = "runtime monitoring: reference-model monitor on Tracker.update (stage positions, fractional times, new positions) + observed order on a refinement ladder + end-to-end positions vs reference integrator on exactly representable fields"
LEVEL_TEXT = ("The real Tracker is stepped thousands of times over random smooth steady and time-dependent fields with a recording plug-in forcing; every step is compared "
              "with an independent implementation of the selected scheme (velocity requests and new positions to 1e-12 cells), the observed order on a 4-level ladder must be "
              ">= p-0.3 for p = 1, 2, 4, and real end-to-end runs on ROMS files with fields linear in x, y and t must reproduce the reference integrator's positions.")
LEVEL_NOTE = ("Order is decided in the bounded, restated form 'observed slope over dt..dt/8' (lower bound only). Exactness is asserted for active particles in open water whose stage "
              "and end positions stay inside the clip box; the metric is the start cell's, as the implementation documents. RK2 = midpoint rule.")
RULE = ("cases: onestep (field x scheme x metric, 200 particles, 6 steps), order (field x scheme ladder), helper (analytical.get_velocityN ladder), e2e (ROMS files, linear field, scheme, "
        "dx != dy). Non-trivial: the field has non-zero second derivatives or time dependence so that the three schemes differ; distinct by (kind, field, scheme, metric).")
MANDATORY = ["e2e_change_between_frames_varying_in_space", "time_step_of_a_day_or_more", "e2e_first_release_after_steps_with_an_empty_state", "e2e_reversed_forcing_over_several_files", "e2e_forcing_over_several_files", "e2e_metric_varying_along_eta_on_off_diagonal_subgrid", "field_exactly_at_rest_at_a_step", "helper_sample_function_returning_shared_arrays", "time_step_of_odd_seconds", "e2e_reversed_time_dependent", "inactive_particles_among_the_active", "grid_corner_off_diagonal", "e2e_subgrid_off_diagonal", "onestep_EF", "onestep_RK2", "onestep_RK4", "time_dependent_field", "anisotropic_metric", "piecewise_metric", "order_EF", "order_RK2", "order_RK4",
             "helper_order_1", "helper_order_2", "helper_order_4", "e2e_runs", "velocity_requests_checked"]
ASSUMPTIONS = ["per-step displacement below about one cell (Courant <= 0.9)", "diffusion off"]
TIMEOUT = {"quick": 900, "thorough": 3000}
ORDER = dict(EF=1, RK2=2, RK4=4)


def rand_flow(rng, nx: float, ny: float, speed: float, timedep: bool) -> dict[str, Any]:
    kind = ["rotation", "strain", "gyre", "wave"][int(rng.integers(4))]
    tm = dict(tmod=float(rng.uniform(0.2, 0.6)), tfreq=float(rng.uniform(2e-4, 1.5e-3))) if timedep else {}
    if kind == "rotation":
        return dict(kind=kind, omega=speed / (0.3 * nx), xc=nx / 2, yc=ny / 2, **tm)
    if kind == "strain":
        return dict(kind=kind, gamma=speed / (0.4 * nx), xc=nx / 2, yc=ny / 2, **tm)
    if kind == "gyre":
        return dict(kind=kind, A=speed, kx=float(rng.uniform(0.25, 0.6)), ky=float(rng.uniform(0.25, 0.6)), ratio=float(rng.uniform(0.6, 1.2)), **tm)
    return dict(kind="wave", A=speed, k=float(rng.uniform(0.3, 0.7)), c=float(rng.uniform(-2e-4, 2e-4)) if timedep else 0.0,
                u0=0.2 * speed, v0=-0.1 * speed)


def gen_cases(tier: str, seed: int) -> list[dict[str, Any]]:
    q = tier == "quick"
    cases = []
    n1 = 60 if q else 18000
    for i in range(n1):
        cases.append(dict(kind="onestep", seed=seed, idx=i, scheme=["EF", "RK2", "RK4"][i % 3], metric=["iso", "aniso", "piecewise"][(i // 3) % 3]))
    n2 = 36 if q else 6000
    for i in range(n2):
        cases.append(dict(kind="order", seed=seed, idx=i, scheme=["EF", "RK2", "RK4"][i % 3]))
    n3 = 12 if q else 1500
    for i in range(n3):
        cases.append(dict(kind="helper", seed=seed, idx=i, order=[1, 2, 4][i % 3]))
    n4 = 24 if q else 3000
    for i in range(n4):
        cases.append(dict(kind="e2e", seed=seed, idx=i, scheme=["EF", "RK2", "RK4"][i % 3]))
    return cases


def make_tracker(scheme: str, flow: dict[str, Any], dt: int, nsteps: int, gridkw: dict[str, Any], X, Y):
    from ladim.state import State  # noqa: PLC0415
    from ladim.timekeeper import TimeKeeper  # noqa: PLC0415
    from ladim.tracker import Tracker  # noqa: PLC0415

    from vmon.plugins import ana_forcing, ana_grid  # noqa: PLC0415

    timer = TimeKeeper(start=C.T0, stop=str(tadd(C.T0, dt * (nsteps + 1))), dt=dt)
    state = State()
    modules: dict[str, Any] = dict(time=timer, state=state)
    modules["grid"] = ana_grid.Grid(modules, **gridkw)
    modules["forcing"] = ana_forcing.Forcing(modules, flow=flow)
    tracker = Tracker(advection=scheme, modules=modules)
    state.append(X=np.asarray(X, float), Y=np.asarray(Y, float), Z=5.0)
    return timer, state, modules["grid"], tracker


def _bump(sit, k, v=1):
    sit[k] = sit.get(k, 0) + int(v)


def _onestep(case, V, sit, cnt, keys):
    rng = C.rng_for(case["seed"], 1, case["idx"], 0)
    scheme = case["scheme"]
    nx, ny = 50.0, 40.0
    # lower-left corner of the (sub)grid: on and off the diagonal, as for a ROMS subgrid with i0 != j0
    x0, y0 = [(0.0, 0.0), (30.0, 2.0), (3.0, 25.0), (12.0, 12.0)][case["idx"] % 4]
    dx = float(rng.choice([200.0, 1000.0, 4000.0]))
    dy = dx if case["metric"] == "iso" else dx * float(rng.uniform(0.5, 1.8))
    dt = int(rng.choice([300, 600, 900]))
    if case["idx"] % 4 == 2:
        dt = int(rng.choice([75, 45, 225, 15, 301]))  # an odd number of seconds: half a step is not a whole number of seconds
        _bump(sit, "time_step_of_odd_seconds")
    if case["idx"] % 12 == 7:
        dt = int(rng.choice([86400, 129600, 172800, 90000]))  # a day or more per step (coarse climatological runs, examples/stommel)
        dx, dy = dx * 100.0, dy * 100.0
        _bump(sit, "time_step_of_a_day_or_more")
    courant = float(rng.uniform(0.05, 0.9))
    speed = courant * min(dx, dy) / dt
    timedep = bool(rng.random() < 0.5)
    flow = rand_flow(rng, nx, ny, speed, timedep)
    if case["idx"] % 5 == 3:
        # a current that is uniform in space and passes through exactly zero at the fourth step (slack water): the stages later in that step are not at rest
        ut_, vt_ = speed / (3.0 * dt), -0.6 * speed / (3.0 * dt)
        flow = dict(kind="linear", u0=-(ut_ * (3 * float(dt))), v0=-(vt_ * (3 * float(dt))), ut=ut_, vt=vt_)
        timedep = True
        _bump(sit, "field_exactly_at_rest_at_a_step")
    for kx, ky in (("xc", "yc"),):
        if kx in flow:
            flow[kx] += x0
            flow[ky] += y0
    gridkw = dict(xmin=x0, xmax=x0 + nx, ymin=y0, ymax=y0 + ny, dx=dx, dy=dy, metric="piecewise" if case["metric"] == "piecewise" else "uniform",
                  metric_seed=case["idx"])
    npart = 200
    X0 = x0 + rng.uniform(8.0, nx - 8.0, size=npart)
    Y0 = y0 + rng.uniform(8.0, ny - 8.0, size=npart)
    timer, state, grid, tracker = make_tracker(scheme, flow, dt, 8, gridkw, X0, Y0)
    vel = ref.flow_vel(flow)
    desc = dict(scheme=scheme, flow=flow, dt=dt, dx=dx, dy=dy, metric=case["metric"])
    active = np.ones(npart, bool)
    if case["idx"] % 3 == 1:
        # some particles switched off by an IBM (alive, not moved) sit between the active ones in the state arrays:
        # "every active particle" must still get the scheme's step
        active = rng.random(npart) > 0.3
        state["active"] = active
        _bump(sit, "inactive_particles_among_the_active")
    nsteps = 6
    for _ in range(nsteps):
        timer.update()
        Xb, Yb = state.X.copy(), state.Y.copy()
        DX, DY = grid.metric(Xb, Yb)
        t = timer.step * float(dt)
        rec.reset()
        tracker.update()
        calls = [c for c in rec.CALLS if c[0] == "velocity"]
        X1, Y1, stages, _uv = ref.scheme_step(scheme, vel, Xb, Yb, t, float(dt), DX, DY)
        # particles for which the scheme is unambiguous
        ok = np.ones(npart, bool)
        for sx, sy, _f in stages + [(X1, Y1, 1.0)]:
            ok &= (sx > x0 + 0.03) & (sx < x0 + nx - 0.03) & (sy > y0 + 0.03) & (sy < y0 + ny - 0.03)
            if case["metric"] == "piecewise":
                ok &= (np.round(sx) == np.round(Xb)) & (np.round(sy) == np.round(Yb))
        ok &= grid.ingrid(X1, Y1)
        if len(calls) != len(stages):
            V.append(C.viol(f"{scheme}: {len(calls)} velocity requests in one step, the scheme has {len(stages)} stages", **desc))
            return
        for c, (sx, sy, f) in zip(calls, stages):
            _bump(sit, "velocity_requests_checked")
            if not (abs(c[2] - f) <= 1e-12):
                V.append(C.viol(f"{scheme}: stage evaluated at fractional step {c[2]}, scheme prescribes {f}", **desc))
                return
            if len(c[3]) == npart:
                sel = ok & active
                d = np.max(np.hypot(c[3][sel] - sx[sel], c[4][sel] - sy[sel])) if sel.any() else 0.0
            elif len(c[3]) == int(active.sum()):  # velocities requested for the active particles only
                sel = ok[active]
                d = np.max(np.hypot(c[3][sel] - sx[active][sel], c[4][sel] - sy[active][sel])) if sel.any() else 0.0
            else:
                d = 0.0  # another selection of particles: only the resulting positions are judged
            if not (d <= 1e-12):
                V.append(C.viol(f"{scheme}: velocity requested {d:.3g} cells away from the stage position of the scheme (fraction {f})", **desc))
                return
        X1 = np.where(active, X1, Xb)
        Y1 = np.where(active, Y1, Yb)
        ok = ok | ~active
        err = np.max(np.hypot(state.X[ok] - X1[ok], state.Y[ok] - Y1[ok])) if ok.any() else 0.0
        cnt["particle_steps_compared"] = cnt.get("particle_steps_compared", 0) + int(ok.sum())
        if not (err <= 1e-12):
            i = int(np.argmax(np.hypot(state.X - X1, state.Y - Y1) * ok))
            V.append(C.viol(f"{scheme}: new position differs from the scheme's by {err:.3g} cells (particle at ({Xb[i]:.4f},{Yb[i]:.4f}) -> ({state.X[i]:.6f},{state.Y[i]:.6f}), "
                            f"expected ({X1[i]:.6f},{Y1[i]:.6f}))", **desc))
            return
        if not np.all(state.alive):
            ok2 = state.alive
            state["alive"] = np.ones(len(ok2), bool)  # keep arrays aligned for the next comparison
    _bump(sit, f"onestep_{scheme}")
    if x0 != y0:
        _bump(sit, "grid_corner_off_diagonal")
    if timedep:
        _bump(sit, "time_dependent_field")
    if case["metric"] == "aniso":
        _bump(sit, "anisotropic_metric")
    if case["metric"] == "piecewise":
        _bump(sit, "piecewise_metric")
    keys.add(("onestep", flow["kind"], scheme, case["metric"], timedep, case["idx"]))


def _order(case, V, sit, cnt, keys):
    rng = C.rng_for(case["seed"], 1, case["idx"], 1)
    scheme = case["scheme"]
    p = ORDER[scheme]
    nx, ny = 50.0, 40.0
    dx = 1000.0
    dy = dx * float(rng.choice([1.0, 0.7, 1.5]))
    dt0 = 1200
    courant = float(rng.uniform(0.45, 0.9)) if scheme == "RK4" else float(rng.uniform(0.15, 0.5))
    speed = courant * min(dx, dy) / dt0
    timedep = bool(rng.random() < 0.5)
    flow = rand_flow(rng, nx, ny, speed, timedep)
    if flow["kind"] == "strain":
        flow = dict(kind="gyre", A=speed, kx=0.45, ky=0.35, ratio=0.9, **({"tmod": 0.4, "tfreq": 8e-4} if timedep else {}))
    vel = ref.flow_vel(flow)
    n0 = 8
    npart = 40
    X0 = rng.uniform(14.0, nx - 14.0, size=npart)
    Y0 = rng.uniform(12.0, ny - 12.0, size=npart)
    T = n0 * dt0
    Xr, Yr = ref.integrate("RK4", vel, X0, Y0, 0.0, dt0 / 64.0, n0 * 64, dx, dy)
    errs = []
    for lev in range(4):
        dt = dt0 // (2 ** lev)
        n = n0 * 2 ** lev
        timer, state, grid, tracker = make_tracker(scheme, flow, dt, n + 1, dict(xmin=0.0, xmax=nx, ymin=0.0, ymax=ny, dx=dx, dy=dy), X0, Y0)
        modules_forcing = tracker.modules["forcing"]
        modules_forcing.record = False
        for _ in range(n):
            timer.update()
            tracker.update()
        if len(state.X) != npart or not np.all(state.alive):
            return  # left the interior: void
        errs.append(float(np.max(np.hypot(state.X - Xr, state.Y - Yr))))
        cnt["tracker_steps"] = cnt.get("tracker_steps", 0) + n
    _ = T
    obs = ref.observed_order(errs)
    desc = dict(scheme=scheme, flow=flow, dt_ladder=[dt0 // 2 ** k for k in range(4)], errors=errs, observed_order=obs, dx=dx, dy=dy)
    if obs is None:
        return
    _bump(sit, f"order_{scheme}")
    if timedep:
        _bump(sit, "time_dependent_field")
    cnt[f"min_order_x100_{scheme}"] = min(cnt.get(f"min_order_x100_{scheme}", 10**6), int(obs * 100))
    # the coarsest level may still be outside the asymptotic range (its error can be small by cancellation): the slope over the three finest levels counts too
    obs_fine = ref.observed_order(errs[1:])
    if obs < p - 0.3 and not (obs_fine is not None and obs_fine >= p - 0.3):
        V.append(C.viol(f"{scheme}: observed order {obs:.2f} over the ladder dt..dt/8 (errors {['%.3g' % e for e in errs]}), the scheme's order is {p}", **desc))
    keys.add(("order", flow["kind"], scheme, timedep, case["idx"]))


class _S:
    pass


def _helper(case, V, sit, cnt, keys):
    from ladim import analytical as A  # noqa: PLC0415
    from ladim.state import State  # noqa: PLC0415

    rng = C.rng_for(case["seed"], 1, case["idx"], 2)
    p = case["order"]
    func = {1: A.get_velocity1, 2: A.get_velocity2, 4: A.get_velocity4}[p]
    speed = float(rng.uniform(2e-4, 6e-4))  # cells per second
    flow = rand_flow(rng, 50.0, 40.0, speed, False)
    if flow["kind"] == "strain":
        flow = dict(kind="rotation", omega=speed / 15.0, xc=25.0, yc=20.0)

    def sample(x, y):
        from vmon import world as W  # noqa: PLC0415

        return W.flow(flow, x, y, 0.0)

    s_par = [0.5, 2.0 / 3.0, 1.0][case["idx"] % 3]
    npart = 30
    X0 = rng.uniform(14.0, 36.0, size=npart)
    Y0 = rng.uniform(12.0, 28.0, size=npart)
    # sample functions that hand back arrays they do not own: the positions themselves (unit coefficients) and arrays cached by the caller;
    # the helper must neither change them nor the state, and must return the scheme's velocity
    cacheU, cacheV = np.full(npart, 3.0e-4), np.full(npart, -2.0e-4)
    for label, fn in (("returns its arguments", lambda x, y: (y, x)), ("returns cached arrays", lambda x, y: (cacheU, cacheV))):
        st0 = State()
        st0.append(X=X0, Y=Y0, Z=0.0)
        try:
            U_, V_ = func(st0, fn, 0.5, s=s_par) if p == 2 else func(st0, fn, 0.5)
            U_, V_ = np.array(U_, float), np.array(V_, float)
        except Exception as e:  # noqa: BLE001
            V.append(C.viol(f"analytical.get_velocity{p} raised {type(e).__name__}: {e} (sample function that {label})"))
            return
        _bump(sit, "helper_sample_function_returning_shared_arrays")
        if np.any(st0.X != X0) or np.any(st0.Y != Y0):
            V.append(C.viol(f"analytical.get_velocity{p} changed the particle positions in the state (sample function that {label})"))
            return
        if np.any(cacheU != 3.0e-4) or np.any(cacheV != -2.0e-4):
            V.append(C.viol(f"analytical.get_velocity{p} changed the arrays its sample function returned (sample function that {label})"))
            return
        if label == "returns cached arrays" and (not (np.max(np.abs(U_ - 3.0e-4)) <= 1e-18) or not (np.max(np.abs(V_ + 2.0e-4)) <= 1e-18)):
            V.append(C.viol(f"analytical.get_velocity{p} in a uniform field ({3.0e-4}, {-2.0e-4}) returned ({U_[0]}, {V_[0]})"))
            return
        if label == "returns its arguments":
            # dx/dt = y, dy/dt = x, step 0.5: compare with the scheme evaluated on copies
            X1r, Y1r, _st, _uv = ref.scheme_step({1: "EF", 2: "RK2", 4: "RK4"}[p], lambda x, y, t: (np.array(y), np.array(x)), X0, Y0, 0.0, 0.5, 1.0, 1.0) if (p != 2 or s_par == 0.5) else (None, None, None, None)
            if X1r is not None and (not (np.max(np.abs(X0 + 0.5 * U_ - X1r)) <= 1e-9) or not (np.max(np.abs(Y0 + 0.5 * V_ - Y1r)) <= 1e-9)):
                V.append(C.viol(f"analytical.get_velocity{p} with sample(x, y) = (y, x): step differs from the scheme's by {np.max(np.abs(X0 + 0.5 * U_ - X1r)):.3g}"))
                return
    dt0, n0 = 1200, 8
    Xr, Yr = ref.integrate("RK4", lambda x, y, t: sample(x, y), X0, Y0, 0.0, dt0 / 64.0, n0 * 64, 1.0, 1.0)
    errs = []
    for lev in range(4):
        dt = dt0 // 2 ** lev
        st = State()
        st.append(X=X0, Y=Y0, Z=0.0)
        for _ in range(n0 * 2 ** lev):
            try:
                if p == 2:
                    U, Vv = func(st, sample, dt, s=s_par)
                else:
                    U, Vv = func(st, sample, dt)
            except Exception as e:  # noqa: BLE001
                V.append(C.viol(f"analytical.get_velocity{p} raised {type(e).__name__}: {e}", flow=flow, s=s_par))
                return
            st["X"] = st.X + dt * np.asarray(U)
            st["Y"] = st.Y + dt * np.asarray(Vv)
        errs.append(float(np.max(np.hypot(st.X - Xr, st.Y - Yr))))
    obs = ref.observed_order(errs)
    if obs is None:
        return
    _bump(sit, f"helper_order_{p}")
    cnt[f"min_helper_order_x100_{p}"] = min(cnt.get(f"min_helper_order_x100_{p}", 10**6), int(obs * 100))
    if obs < p - 0.3:
        V.append(C.viol(f"analytical.get_velocity{p}: observed order {obs:.2f} (errors {['%.3g' % e for e in errs]}), expected {p}", flow=flow, s=s_par))
    keys.add(("helper", p, flow["kind"], case["idx"]))


def _e2e(case, wd, V, sit, cnt, keys):
    rng = C.rng_for(case["seed"], 1, case["idx"], 3)
    scheme = case["scheme"]
    imax, jmax = 26, 22
    dx = float(rng.choice([500.0, 1000.0, 2500.0]))
    dy = dx * float(rng.choice([1.0, 0.6, 1.4, 2.0]))
    dt = int(rng.choice([300, 600]))
    nsteps = int(rng.integers(4, 10))
    rel_step = 3 if case["idx"] % 4 == 1 else 0  # (idx % 4 == 1: forward, time dependent)
    nsteps += rel_step
    c = float(rng.uniform(0.1, 0.5))
    sp = c * min(dx, dy) / dt
    timedep = case["idx"] % 2 == 1
    lin = dict(kind="linear", u0=float(rng.uniform(-sp, sp)), v0=float(rng.uniform(-sp, sp)),
               ux=float(rng.uniform(-sp, sp) / 12), uy=float(rng.uniform(-sp, sp) / 12),
               vx=float(rng.uniform(-sp, sp) / 12), vy=float(rng.uniform(-sp, sp) / 12))
    span = (nsteps + 2) * dt
    if timedep:
        lin["ut"] = float(rng.uniform(-sp, sp) / span)
        lin["vt"] = float(rng.uniform(-sp, sp) / span)
        if case["idx"] % 8 in (1, 3, 5):
            # the change between two frames varies in space (still bilinear in x, y and linear in t: exactly representable)
            for k_ in ("uxt", "uyt", "vxt", "vyt"):
                lin[k_] = float(rng.uniform(-sp, sp) / 12 / span)
            _bump(sit, "e2e_change_between_frames_varying_in_space")
    # frames: irregular spacing in model steps, the first at or before start
    gaps = [int(g) for g in rng.choice([1, 2, 3, 5], size=6)]
    offs = [-int(rng.integers(0, 3)) * dt]
    while offs[-1] < span:
        offs.append(offs[-1] + gaps[len(offs) % 6] * dt)
    start = C.T0
    rev = bool(case["idx"] % 4 == 3)  # time-dependent field, time reversed: the scheme runs in the mirrored, sign-flipped flow
    if rev:
        offs = sorted(-o for o in offs)
    files = [len(offs)]
    if timedep and len(offs) >= 4:  # the frames spread over two or three files (a reversed run walks the files backwards)
        a = int(rng.integers(1, len(offs) - 1))
        files = [a, len(offs) - a]
        if files[1] >= 3 and case["idx"] % 3 == 0:
            files = [a, 1, files[1] - 1]
    slope = 0.04 if case["idx"] % 5 in (2, 4) else 0.0  # grid spacing growing from row to row: the start cell's row decides the metric
    met = dict(kind="eta_linear", dx=dx, dy=dy, slope=slope) if slope else dict(kind="uniform", dx=dx, dy=dy)
    w = dict(imax=imax, jmax=jmax, N=2, t0=start, frames=offs, files=files, vel=lin, store="f8",
             metric=met, h=dict(kind="flat", h=50.0))
    npart = 12
    X0 = rng.uniform(8.0, imax - 9.0, size=npart)
    Y0 = rng.uniform(8.0, jmax - 9.0, size=npart)
    # half of the forward time-dependent cases release nobody before step 3: the flow must have gone on changing while the state was empty
    rows = [[str(tadd(start, rel_step * dt)), float(X0[k]), float(Y0[k]), 5.0] for k in range(npart)]
    sub = [None, [6, imax - 1, 2, jmax - 1], [2, imax - 2, 5, jmax - 2]][case["idx"] % 3]
    run = dict(start=start, stop=str(tadd(start, (-1 if rev else 1) * nsteps * dt)), dt=dt, reversed=rev, advection=scheme, subgrid=sub,
               release=dict(columns=["release_time", "X", "Y", "Z"], rows=rows, header=True), output=dict(period=dt))
    res, conf, world = run_scenario(dict(world=w, run=run), wd)
    if sub:
        _bump(sit, "e2e_subgrid_off_diagonal")
    if rev:
        _bump(sit, "e2e_reversed_time_dependent")
    if rev and len(files) > 1:
        _bump(sit, "e2e_reversed_forcing_over_several_files")
    if len(files) > 1:
        _bump(sit, "e2e_forcing_over_several_files")
    if slope and sub:
        _bump(sit, "e2e_metric_varying_along_eta_on_off_diagonal_subgrid")
    desc = dict(scheme=scheme, subgrid=sub, field=lin, dt=dt, dx=dx, dy=dy, files=files, metric=met, frames_steps=[o // dt for o in offs], nsteps=nsteps)
    _bump(sit, "e2e_runs")
    if not res.ok:
        V.append(C.viol(f"end-to-end run did not complete: {res.exc}", tb=res.tb[-1200:], **desc))
        return
    recs = all_records(read_outputs(res.outputs))
    vel = ref.flow_vel(lin)
    if rev:
        fwd = vel

        def vel(x, y, t):  # simulation time t (seconds after the start) <-> physical time -t, flow of opposite sign
            u_, v_ = fwd(x, y, -t)
            return -u_, -v_

    X, Y = X0.copy(), Y0.copy()
    if rel_step:
        _bump(sit, "e2e_first_release_after_steps_with_an_empty_state")
    for n, r in enumerate(recs):
        if n < rel_step:
            continue
        if len(r.pid) != npart:
            return  # somebody left the grid: void for this property
        err = float(np.max(np.hypot(r.vars["X"] - X, r.vars["Y"] - Y)))
        cnt["e2e_positions_compared"] = cnt.get("e2e_positions_compared", 0) + npart
        if not (err <= 1e-9):
            k = int(np.argmax(np.hypot(r.vars["X"] - X, r.vars["Y"] - Y)))
            V.append(C.viol(f"{scheme} end to end: record {n} position ({r.vars['X'][k]:.8f},{r.vars['Y'][k]:.8f}) differs by {err:.3g} cells from the scheme applied to the "
                            f"(exactly representable) linear field ({X[k]:.8f},{Y[k]:.8f})", **desc))
            return
        fac = 1.0 + slope * np.round(Y)  # metric of the cell the step starts in
        X, Y, _s, _uv = ref.scheme_step(scheme, vel, X, Y, n * float(dt), float(dt), dx * fac, dy * fac)
    if timedep:
        _bump(sit, "time_dependent_field")
    if dx != dy:
        _bump(sit, "anisotropic_metric")
    keys.add(("e2e", scheme, timedep, dx != dy, case["idx"]))


def run_case(case: dict[str, Any], wd: Path) -> dict[str, Any]:
    V: list = []
    sit: dict[str, int] = {}
    cnt: dict[str, int] = {}
    keys: set = set()
    k = case["kind"]
    if k == "onestep":
        _onestep(case, V, sit, cnt, keys)
    elif k == "order":
        _order(case, V, sit, cnt, keys)
    elif k == "helper":
        _helper(case, V, sit, cnt, keys)
    else:
        _e2e(case, wd, V, sit, cnt, keys)
    sample = dict(case=case, observed=sit, counters=cnt)
    return C.result(V[:3], sit, cnt, nontrivial=len(keys) > 0, key=f"{k}|{case['idx']}", sample=sample)
