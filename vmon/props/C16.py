"""C16 Longitude/latitude and grid coordinates are mutually consistent; 2-D sampler.

Monitors: icontract postcondition on the real ladim.sample.sample2D (independent bilinear formula, convexity,
masking, substitute values) evaluated on every call; round-trip monitor on ROMS.Grid.xy2ll / ll2xy over analytic
polar-stereographic grids (true lon/lat known in closed form); end-to-end monitor: releases by lon/lat and
lon/lat written to the output file, checked against the file's lon_rho/lat_rho read independently."""

from __future__ import annotations

from pathlib import Path
from typing import Any

import numpy as np
from netCDF4 import Dataset

from vmon import common as C
from vmon import world as W
from vmon.scenario import all_records, read_outputs, run_scenario, tadd

LEVEL = "exploration"
TECHNIQUE = "runtime monitoring: icontract postcondition on sample2D, round-trip monitor on Grid.xy2ll/ll2xy over analytic conformal grids, output-file read-back for lon/lat releases and lon/lat output"
LEVEL_TEXT = ("Analytic polar-stereographic grids (random pole, rotation, resolution 0.8-20 km) and random subgrids; thousands of positions over the whole valid region "
              "incl. its rim are converted forth and back through the real Grid methods; the residual and the position error are bounded by the solver's own stopping rule. "
              "End-to-end runs release by lon/lat and write lon/lat; sample2D runs under a postcondition with random fields, masks and substitute values incl. 0.0.")
LEVEL_NOTE = "Position error bound = 1.5*sqrt(tol)/sigma_min(J) with tol = 1e-7 (bilin_inv's stopping rule), J = local Jacobian in degrees per cell; trusts numpy/netCDF4 and the closed-form projection in the harness."
RULE = ("cases: sample2d chunks (random fields/masks/positions/substitutes), roundtrip (one grid x subgrid x 2000 positions), e2e (lon/lat release + lon/lat output, sparse and dense). "
        "Non-trivial: positions within one cell of the rim of the valid region are present / masked or outside points present; distinct by grid parameters.")
MANDATORY = ["e2e_dense_layout_with_a_gap_in_the_living_pids", "ll2xy_call_with_targets_outside_the_grid_among_the_others", "pole_a_few_cells_outside_the_domain", "e2e_release_rows_sharing_a_longitude_or_a_latitude", "xy2ll_positions_in_cells_with_a_land_corner", "e2e_lonlat_output_in_cells_with_a_land_corner", "e2e_grid_module_ROMS2_lonlat_release", "e2e_lonlat_stored_packed", "positions_within_1e-9_of_a_masked_edge", "grid_longer_than_700_cells", "e2e_inactive_particles", "e2e_split_output_files", "post_sample2D", "roundtrip_positions", "longitudes_beyond_180", "rim_positions", "subgrid", "outside_value_zero", "outside_value_nan", "masked_corner",
             "all_masked", "outside_raises", "e2e_lonlat_release", "e2e_lonlat_output", "exact_bilinear_field", "fine_grid_below_250m", "e2e_fine_grid_below_250m"]
ASSUMPTIONS = ["grids are conformal and smooth (polar stereographic) as the property quantifies; the branch cut of longitude is kept outside the grid"]
TIMEOUT = {"quick": 600, "thorough": 3000}
TOL = 1.0e-7  # bilin_inv default


class PostBroken(Exception):
    _vmon_target = True  # a broken contract is a verdict about the code under test, also when it fires inside a ladim run


_st: dict[str, Any] = dict(installed=False, n=0, why="")


def sample2d_ok(F, X, Y, mask, undef_value, outside_value, result) -> bool:
    _st["n"] += 1
    F = np.asarray(F, float)
    jmax, imax = F.shape
    X0, Y0 = np.broadcast_arrays(np.asarray(X, float), np.asarray(Y, float))
    res = np.broadcast_to(np.asarray(result, float), X0.shape)
    for idx in np.ndindex(X0.shape):
        x, y, r = float(X0[idx]), float(Y0[idx]), float(res[idx])
        outside = x < 0 or x >= imax - 1 or y < 0 or y >= jmax - 1
        if outside:
            if outside_value is None:
                _st["why"] = "returned instead of raising for an outside point"
                return False
            ov = float(outside_value)
            if not (r == ov or (np.isnan(r) and np.isnan(ov))):
                _st["why"] = f"outside point ({x},{y}) -> {r}, requested substitute {ov}"
                return False
            continue
        i, j = int(np.floor(x)), int(np.floor(y))
        p, q = x - i, y - j
        w = np.array([(1 - p) * (1 - q), p * (1 - q), (1 - p) * q, p * q])
        f = np.array([F[j, i], F[j, i + 1], F[j + 1, i], F[j + 1, i + 1]])
        if mask is not None:
            m = np.array([mask[j, i], mask[j, i + 1], mask[j + 1, i], mask[j + 1, i + 1]], float)
            w = w * m
        sw = w.sum()
        if sw <= 0:
            if not (r == undef_value or (np.isnan(r) and np.isnan(undef_value))):
                _st["why"] = f"all contributing nodes masked at ({x},{y}) -> {r}, undef_value {undef_value}"
                return False
            continue
        want = float((w * f).sum() / sw)
        scale = max(1.0, float(np.max(np.abs(f))))
        if not (abs(r - want) <= 1e-10 * scale):
            _st["why"] = f"({x},{y}) -> {r}, bilinear value {want}"
            return False
        used = f[w > 0]
        if r < used.min() - 1e-10 * scale or r > used.max() + 1e-10 * scale:
            _st["why"] = f"({x},{y}) -> {r} outside [{used.min()},{used.max()}] of the contributing corners"
            return False
    return True


def _install():
    import icontract  # noqa: PLC0415
    import ladim.ROMS as R  # noqa: PLC0415
    import ladim.sample as S  # noqa: PLC0415

    if not _st["installed"]:
        wrapped = icontract.ensure(sample2d_ok, error=PostBroken)(S.sample2D)
        S.sample2D = wrapped
        R.sample2D = wrapped  # ROMS binds the name at import (from ladim.sample import sample2D)
        _st["installed"] = True
    return S, R


def polar_spec(rng, imax: int, jmax: int, fine: bool = False) -> dict[str, float]:
    dx = float(np.exp(rng.uniform(np.log(800.0), np.log(20000.0))))
    if fine:  # fjord-scale models
        dx = float(rng.uniform(100.0, 250.0))
    lat0 = float(rng.uniform(55.0, 80.0))
    Rr = 6371.0e3 * (1 + np.sin(np.radians(60.0)))
    r = Rr * np.tan(np.radians(90.0 - lat0) / 2) / dx
    r = max(r, 1.5 * max(imax, jmax))
    a = np.radians(rng.uniform(35.0, 145.0))
    # central meridian anywhere, incl. grids across the date line stored in the 0..360 or the -360..0 convention (continuous lon field)
    ylon = float(rng.choice([rng.uniform(-60, 60), rng.uniform(150, 215), rng.uniform(-215, -150), 180.0]))
    return dict(kind="polar", xp=float(imax / 2 + r * np.cos(a)), yp=float(jmax / 2 + r * np.sin(a)), dx=dx, ylon=ylon)


def gen_cases(tier: str, seed: int) -> list[dict[str, Any]]:
    q = tier == "quick"
    cases = [dict(kind="sample2d", seed=seed, idx=i, n=60 if q else 200) for i in range(16 if q else 1000)]
    cases += [dict(kind="roundtrip", seed=seed, idx=i, npos=2000) for i in range(50 if q else 10000)]
    cases += [dict(kind="e2e", seed=seed, idx=i) for i in range(16 if q else 1500)]
    return cases


def _bump(sit, k, v=1):
    sit[k] = sit.get(k, 0) + int(v)


def _case_sample2d(case, S, V, sit, cnt, keys):
    rng = C.rng_for(case["seed"], 16, case["idx"], 0)
    for it in range(case["n"]):
        jmax, imax = int(rng.integers(2, 9)), int(rng.integers(2, 9))
        kind = int(rng.integers(3))
        xs, ys = np.arange(imax)[None, :], np.arange(jmax)[:, None]
        if kind == 0:  # bilinear field a + bx + cy + dxy: exact
            a, b, c, d = rng.uniform(-5, 5, size=4)
            F = a + b * xs + c * ys + d * xs * ys
        else:
            F = rng.uniform(-10, 10, size=(jmax, imax))
        mask = None
        if rng.random() < 0.5:
            mask = (rng.random((jmax, imax)) > 0.35).astype(float)
            if rng.random() < 0.2:
                mask[:] = 0.0
        npnt = 12
        X = rng.uniform(-1.0, imax, size=npnt)
        Y = rng.uniform(-1.0, jmax, size=npnt)
        X[:3] = np.clip(np.round(X[:3]), 0, imax - 1)  # nodes and edges
        Y[:2] = np.clip(np.round(Y[:2]), 0, jmax - 1)
        if mask is not None and np.any(mask) and imax > 4 and jmax > 4:
            # positions a hair's breadth from an edge whose own nodes are masked: the (tiny-weight) sea nodes on the far side still give the value
            mask[:, 1] = 0.0
            mask[:, 2] = 1.0
            mask[1, :] = 0.0
            mask[2, :] = 1.0
            mask[1, 1] = 0.0
            X[3:6] = 1.0 + np.array([1e-9, 1e-11, 1e-13])
            Y[3:6] = rng.uniform(2.0, jmax - 2.0, size=3)
            Y[6:8] = 1.0 + np.array([1e-9, 1e-12])
            X[6:8] = rng.uniform(2.0, imax - 2.0, size=2)
            _bump(sit, "positions_within_1e-9_of_a_masked_edge", 5)
        inside = (X >= 0) & (X < imax - 1) & (Y >= 0) & (Y < jmax - 1)
        ov = [None, 0.0, -1.0, float("nan"), 99.5][int(rng.integers(5))]
        uv = [0.0, -999.0, float("nan")][int(rng.integers(3))]
        if ov is None:
            if np.any(~inside):
                try:
                    S.sample2D(F, X, Y, mask=mask, undef_value=uv)
                    V.append(C.viol("sample2D returned a value for a point outside the grid although no substitute value was given"))
                except ValueError:
                    _bump(sit, "outside_raises")
                except PostBroken:
                    V.append(C.viol("sample2D returned a value for a point outside the grid although no substitute value was given"))
            X, Y = X[inside], Y[inside]
            if len(X) == 0:
                continue
        else:
            if np.any(~inside):
                if ov == 0.0:
                    _bump(sit, "outside_value_zero")
                if isinstance(ov, float) and np.isnan(ov):
                    _bump(sit, "outside_value_nan")
        kwargs = dict(mask=mask, undef_value=uv)
        if ov is not None:
            kwargs["outside_value"] = ov
        try:
            res = S.sample2D(F, X, Y, **kwargs)
            cnt["sample2D_points"] = cnt.get("sample2D_points", 0) + len(X)
        except PostBroken:
            V.append(C.viol(f"sample2D postcondition: {_st['why']}", F=F.tolist(), X=X.tolist(), Y=Y.tolist(),
                            mask=None if mask is None else mask.tolist(), outside_value=repr(ov), undef_value=repr(uv)))
            continue
        except Exception as e:  # noqa: BLE001
            V.append(C.viol(f"sample2D raised {type(e).__name__}: {e}", X=X.tolist(), Y=Y.tolist(), shape=[jmax, imax], outside_value=repr(ov)))
            continue
        if kind == 0 and mask is None:
            ins = (X >= 0) & (X < imax - 1) & (Y >= 0) & (Y < jmax - 1)
            want = a + b * X + c * Y + d * X * Y
            if np.any(~(np.abs(np.asarray(res)[ins] - want[ins]) <= 1e-9 * (1 + np.abs(want[ins])))):
                V.append(C.viol("sample2D not exact on a bilinear field", X=X.tolist(), Y=Y.tolist()))
            _bump(sit, "exact_bilinear_field", int(ins.sum()))
        if mask is not None:
            if np.all(mask == 0):
                _bump(sit, "all_masked")
            else:
                _bump(sit, "masked_corner")
        # scalar arguments
        if it % 7 == 0 and len(X):
            try:
                S.sample2D(F, float(X[0]), float(Y[0]), **kwargs)
            except PostBroken:
                V.append(C.viol(f"sample2D (scalar position) postcondition: {_st['why']}"))
            except Exception as e:  # noqa: BLE001
                V.append(C.viol(f"sample2D (scalar position) raised {type(e).__name__}: {e}"))
        keys.add((jmax, imax, kind, repr(ov), mask is not None, it))
        if len(V) > 4:
            return


def _case_roundtrip(case, R, wd, V, sit, cnt, keys):
    rng = C.rng_for(case["seed"], 16, case["idx"], 1)
    imax, jmax = int(rng.integers(12, 41)), int(rng.integers(10, 33))
    if case["idx"] % 16 == 5:
        # a long grid: targets hundreds of cells away from the middle, where the inverse starts its search
        imax, jmax = int(rng.integers(700, 1201)), int(rng.integers(40, 81))
        if case["idx"] % 32 == 21:
            imax, jmax = jmax, imax
        _bump(sit, "grid_longer_than_700_cells")
    pol = polar_spec(rng, imax, jmax, fine=case["idx"] % 4 == 0)
    pole_near = bool(case["idx"] % 16 == 9)
    if pole_near:
        # a coarse pan-Arctic grid with the pole a few cells outside the domain: longitude turns quickly from cell to cell near that edge
        imax, jmax = int(rng.integers(160, 241)), int(rng.integers(120, 201))
        pol = dict(kind="polar", xp=float(imax * rng.uniform(0.3, 0.7)), yp=float(jmax + rng.uniform(2.5, 6.0)), dx=20000.0, ylon=float(rng.uniform(-60, 60)))
        _bump(sit, "pole_a_few_cells_outside_the_domain")
    if pol["dx"] <= 250.0:
        _bump(sit, "fine_grid_below_250m")
    spec = dict(imax=imax, jmax=jmax, N=2, t0=C.T0, frames=[0, 3600], files=[2], vel=dict(kind="zero"),
                metric=pol, lonlat=pol, grid_in_forcing=False)
    if case["idx"] % 2 == 1:
        spec["mask"] = dict(kind="random", p=0.15, seed=case["idx"])  # land cells: longitude and latitude are geometry, the same next to land as in open water
    w = W.write_world(wd / "w", spec)
    sub = None
    if rng.random() < 0.6:
        i0 = int(rng.integers(1, imax // 2))
        i1 = int(rng.integers(i0 + 5, imax))
        j0 = int(rng.integers(1, jmax // 2))
        j1 = int(rng.integers(j0 + 5, jmax))
        sub = [i0, i1, j0, j1]
        _bump(sit, "subgrid")
    try:
        g = R.Grid(filename=str(w["gridfile"]), subgrid=sub)
    except BaseException as e:  # noqa: BLE001
        V.append(C.viol(f"Grid refused a legal subgrid {sub}: {type(e).__name__}: {e}"))
        return
    lo_x, hi_x = g.xmin + 0.5, g.xmax - 0.5
    lo_y, hi_y = g.ymin + 0.5, g.ymax - 0.5
    n = case["npos"]
    X = rng.uniform(lo_x, hi_x, size=n)
    Y = rng.uniform(lo_y, hi_y, size=n)
    eps = 1e-6
    # the rim of the valid region, corners and near-rim band
    k = n // 8
    X[:k] = lo_x + eps
    X[k:2 * k] = hi_x - eps
    Y[2 * k:3 * k] = lo_y + eps
    Y[3 * k:4 * k] = hi_y - eps
    X[4 * k:4 * k + 4] = [lo_x + eps, lo_x + eps, hi_x - eps, hi_x - eps]
    Y[4 * k:4 * k + 4] = [lo_y + eps, hi_y - eps, lo_y + eps, hi_y - eps]
    rim = (X < lo_x + 1) | (X > hi_x - 1) | (Y < lo_y + 1) | (Y > hi_y - 1)
    _bump(sit, "rim_positions", int(rim.sum()))
    desc = dict(grid=[imax, jmax], subgrid=sub, polar={k2: (round(v, 3) if isinstance(v, float) else v) for k2, v in pol.items()})
    try:
        lon, lat = g.xy2ll(X, Y)
    except Exception as e:  # noqa: BLE001
        V.append(C.viol(f"xy2ll failed inside the valid region: {type(e).__name__}: {e}", **desc))
        return
    # against the closed-form projection: bilinear interpolation error of a smooth map is tiny but not zero
    tlon, tlat = W.polar_lonlat(X, Y, pol)
    if not pole_near and (not (np.max(np.abs(lon - tlon)) <= 2e-2) or not (np.max(np.abs(lat - tlat)) <= 2e-2)):
        V.append(C.viol(f"xy2ll is not the grid's lon/lat at the position (max deviation {np.max(np.abs(lon - tlon)):.3g}, {np.max(np.abs(lat - tlat)):.3g} deg)", **desc))
    with Dataset(w["gridfile"]) as nc_:
        LON_, LAT_ = np.array(nc_.variables["lon_rho"][:], float), np.array(nc_.variables["lat_rho"][:], float)
        MASK_ = np.array(nc_.variables["mask_rho"][:], float)
    ii, jj = np.floor(X).astype(int), np.floor(Y).astype(int)
    pp, qq = X - ii, Y - jj

    def bilv(F):
        return (1 - pp) * (1 - qq) * F[jj, ii] + pp * (1 - qq) * F[jj, ii + 1] + (1 - pp) * qq * F[jj + 1, ii] + pp * qq * F[jj + 1, ii + 1]

    blon, blat = bilv(LON_), bilv(LAT_)
    nearland = (MASK_[jj, ii] * MASK_[jj, ii + 1] * MASK_[jj + 1, ii] * MASK_[jj + 1, ii + 1]) < 1
    _bump(sit, "xy2ll_positions_in_cells_with_a_land_corner", int(nearland.sum()))
    _bump(sit, "xy2ll_positions_compared_with_bilinear_interpolation", n)
    dev = np.maximum(np.abs(np.asarray(lon) - blon), np.abs(np.asarray(lat) - blat))
    if not np.all(dev <= 1e-9):
        i_ = int(np.nanargmax(np.where(np.isfinite(dev), dev, np.inf)))
        V.append(C.viol(f"xy2ll({X[i_]:.6f},{Y[i_]:.6f}) = ({np.asarray(lon)[i_]:.9f},{np.asarray(lat)[i_]:.9f}); bilinear interpolation of lon_rho/lat_rho there is ({blon[i_]:.9f},{blat[i_]:.9f}) "
                        f"({'a corner of the cell is land' if nearland[i_] else 'open water'}; {int(np.sum(~(dev <= 1e-9)))} of {n} positions)", **desc))
    try:
        X2, Y2 = g.ll2xy(lon, lat)
    except Exception as e:  # noqa: BLE001
        V.append(C.viol(f"ll2xy failed for lon/lat of positions inside the valid region: {type(e).__name__}: {e}", **desc))
        return
    X2, Y2 = np.asarray(X2, float), np.asarray(Y2, float)
    _bump(sit, "roundtrip_positions", n)
    # the same targets in one call with two targets far outside the (sub)grid: the answer for a point does not depend on the other points of the call
    olon, olat = W.polar_lonlat(np.array([g.xmax + 12.0, g.xmin - 9.0]), np.array([g.ymax + 15.0, g.ymin - 7.0]), pol)
    try:
        X3, Y3 = g.ll2xy(np.concatenate([lon, olon]), np.concatenate([lat, olat]))
        X3, Y3 = np.asarray(X3, float)[:n], np.asarray(Y3, float)[:n]
        _bump(sit, "ll2xy_call_with_targets_outside_the_grid_among_the_others")
        if not (np.array_equal(X3, X2) and np.array_equal(Y3, Y2)):
            i_ = int(np.nanargmax(np.hypot(X3 - X2, Y3 - Y2)))
            V.append(C.viol(f"ll2xy gives ({X3[i_]:.6f},{Y3[i_]:.6f}) for a target when two targets outside the grid are in the same call, ({X2[i_]:.6f},{Y2[i_]:.6f}) without them "
                            f"(true position ({X[i_]:.6f},{Y[i_]:.6f}))", **desc))
    except Exception as e:  # noqa: BLE001
        V.append(C.viol(f"ll2xy failed when targets outside the grid were among the targets: {type(e).__name__}: {e}", **desc))
    # local Jacobian (degrees per cell) from the closed form
    h = 1e-3
    lx1, la1 = W.polar_lonlat(X + h, Y, pol)
    lx0, la0 = W.polar_lonlat(X - h, Y, pol)
    ly1, lb1 = W.polar_lonlat(X, Y + h, pol)
    ly0, lb0 = W.polar_lonlat(X, Y - h, pol)
    J = np.empty((n, 2, 2))
    J[:, 0, 0] = (lx1 - lx0) / (2 * h)
    J[:, 0, 1] = (ly1 - ly0) / (2 * h)
    J[:, 1, 0] = (la1 - la0) / (2 * h)
    J[:, 1, 1] = (lb1 - lb0) / (2 * h)
    smin = np.linalg.svd(J, compute_uv=False)[:, -1]
    bound = 1.5 * np.sqrt(TOL) / smin
    err = np.hypot(X2 - X, Y2 - Y)
    bad = ~np.isfinite(err) | (err > bound)
    cnt["max_roundtrip_error_1e9cells"] = max(cnt.get("max_roundtrip_error_1e9cells", 0), int(np.nanmax(err) * 1e9) if np.any(np.isfinite(err)) else 0)
    if np.any(bad):
        i = int(np.nonzero(bad)[0][0])
        V.append(C.viol(f"round trip xy->ll->xy moved ({X[i]:.6f},{Y[i]:.6f}) to ({X2[i]:.6f},{Y2[i]:.6f}); error {err[i]:.3g} cells > bound {bound[i]:.3g} "
                        f"({int(bad.sum())} of {n} positions)", rim=bool(rim[i]), **desc))
    else:
        # residual of the returned point below the solver's own tolerance
        ok = (X2 > g.xmin) & (X2 < g.xmax) & (Y2 > g.ymin) & (Y2 < g.ymax)
        lon2, lat2 = g.xy2ll(X2[ok], Y2[ok])
        Hres = (lon2 - lon[ok]) ** 2 + (lat2 - lat[ok]) ** 2
        if np.any(Hres > TOL * 1.0001):
            V.append(C.viol(f"ll2xy returned a point whose lon/lat misses the target by more than the solver tolerance (H={Hres.max():.3g})", **desc))
    keys.add((imax, jmax, tuple(sub or []), round(pol["dx"])))
    if float(np.max(tlon)) >= 180.0 or float(np.min(tlon)) < -180.0:
        _bump(sit, "longitudes_beyond_180")


def _case_e2e(case, wd, V, sit, cnt, keys):
    rng = C.rng_for(case["seed"], 16, case["idx"], 2)
    imax, jmax = int(rng.integers(14, 26)), int(rng.integers(12, 22))
    pol = polar_spec(rng, imax, jmax, fine=case["idx"] % 4 == 2)
    if pol["dx"] <= 250.0:
        _bump(sit, "e2e_fine_grid_below_250m")
    postol = max(0.05, 1.5 * np.sqrt(TOL) / (0.9 * pol["dx"] / 111.2e3))  # the solver's tolerance is absolute in degrees
    dt = 600
    nsteps = 4
    start = C.T0
    stop = str(tadd(start, nsteps * dt))
    # moving water so that lon/lat of later records are at fresh positions
    w = dict(imax=imax, jmax=jmax, N=2, t0=str(tadd(start, -3600)), frames=[0, 3600 * 3], files=[2],
             vel=dict(kind="const", u=0.3 * pol["dx"] / dt * float(rng.uniform(-1, 1)), v=0.3 * pol["dx"] / dt * float(rng.uniform(-1, 1))),
             metric=pol, lonlat=pol)
    sub = None
    if rng.random() < 0.5:
        sub = [2, imax - 2, 3, jmax - 1]
        _bump(sit, "subgrid")
    roms2 = bool(case["idx"] % 6 == 4)  # the documented alternative grid/forcing module (adaptive subgrid) has its own xy2ll / ll2xy
    if roms2:
        sub = None
    i0, i1, j0, j1 = sub or [1, imax - 1, 1, jmax - 1]
    npart = 6
    X = rng.uniform(i0 + 2.0, i1 - 3.0, size=npart)
    Y = rng.uniform(j0 + 2.0, j1 - 3.0, size=npart)
    if case["idx"] % 3 == 0:
        # scattered land cells; every particle starts in a sea cell, most of them in cells of which a corner is land
        w["mask"] = dict(kind="random", p=0.12, seed=case["idx"])
        Mk = W.make_mask(w["mask"], jmax, imax)
        for k_ in range(npart):
            for _try in range(200):
                if Mk[int(round(Y[k_])), int(round(X[k_]))] > 0:
                    break
                X[k_], Y[k_] = rng.uniform(i0 + 2.0, i1 - 3.0), rng.uniform(j0 + 2.0, j1 - 3.0)
    lon, lat = W.polar_lonlat(X, Y, pol)  # true coordinates of the intended positions
    bylonlat = bool(case["idx"] % 2 == 0)
    if bylonlat:
        # stations on one meridian and on one parallel: particle 1 shares its longitude, particle 2 its latitude with particle 0 (about half a cell away);
        # on these rotated, curved grids X depends on both coordinates
        dlat = 0.5 * pol["dx"] / 111.2e3

        def inv(lo_t, la_t, x_, y_):
            for _ in range(30):
                f0 = np.array(W.polar_lonlat(np.array([x_]), np.array([y_]), pol)).ravel()
                fx = np.array(W.polar_lonlat(np.array([x_ + 1e-4]), np.array([y_]), pol)).ravel()
                fy = np.array(W.polar_lonlat(np.array([x_]), np.array([y_ + 1e-4]), pol)).ravel()
                Jm = np.array([[fx[0] - f0[0], fy[0] - f0[0]], [fx[1] - f0[1], fy[1] - f0[1]]]) / 1e-4
                d_ = np.linalg.solve(Jm, np.array([lo_t - f0[0], la_t - f0[1]]))
                x_, y_ = x_ + d_[0], y_ + d_[1]
            return float(x_), float(y_)

        for k_, (dlo_, dla_) in ((1, (0.0, dlat)), (2, (dlat / max(0.2, np.cos(np.radians(lat[0]))), 0.0))):
            lo_t, la_t = float(lon[0] + dlo_), float(lat[0] + dla_)
            try:
                x_, y_ = inv(lo_t, la_t, float(X[0]), float(Y[0]))
            except np.linalg.LinAlgError:
                continue
            chk = W.polar_lonlat(np.array([x_]), np.array([y_]), pol)
            inside_ = i0 + 1.5 < x_ < i1 - 2.5 and j0 + 1.5 < y_ < j1 - 2.5
            sea_ = "mask" not in w or Mk[int(round(y_)), int(round(x_))] > 0
            if inside_ and sea_ and abs(float(chk[0][0]) - lo_t) < 1e-9 and abs(float(chk[1][0]) - la_t) < 1e-9:
                X[k_], Y[k_], lon[k_], lat[k_] = x_, y_, lo_t, la_t
                _bump(sit, "e2e_release_rows_sharing_a_longitude_or_a_latitude")
    layout = "dense" if (case["idx"] // 2) % 2 else "sparse"
    if bylonlat:
        cols = ["release_time", "lon", "lat", "Z"]
        rows = [[start, float(lon[k]), float(lat[k]), 1.0] for k in range(npart)]
    else:
        cols = ["release_time", "X", "Y", "Z"]
        rows = [[start, float(X[k]), float(Y[k]), 1.0] for k in range(npart)]
    run = dict(start=start, stop=stop, dt=dt, advection="EF", subgrid=sub,
               release=dict(columns=cols, rows=rows, header=True),
               state=dict(instance_variables=dict(lon="float", lat="float"), default_values=dict(lon=0.0, lat=0.0)),
               # (dense layout: a particle with a low pid is removed early on, so that the living pids have a gap)
               ibm=dict(module=C.REC_IBM, deactivate={"1": [1, 3]}, log=False) if case["idx"] % 2 else (dict(module=C.REC_IBM, kill={"0": [1]}, log=False) if layout == "dense" else {}),
               output=dict(period=dt, layout=layout, numrec=[0, 2, 1][case["idx"] % 3], instance=dict(pid="i4", X="f8", Y="f8", Z="f8", lon="f8", lat="f8")))
    lltol = 1e-9
    if case["idx"] % 4 == 1:
        # longitude/latitude stored packed (integers with a scale factor, as examples/killer/dense.yaml packs X)
        run["output"]["instance"]["lon"] = dict(datatype="i4", scale_factor=1.0e-6)
        run["output"]["instance"]["lat"] = dict(datatype="i4", scale_factor=1.0e-6)
        lltol = 0.51e-6
        _bump(sit, "e2e_lonlat_stored_packed")
    def tweak(conf):
        if roms2:
            conf["grid"]["module"] = "ladim.ROMS2"
            conf["forcing"]["module"] = "ladim.ROMS2"
            conf["grid"].pop("subgrid", None)

    res, conf, world = run_scenario(dict(world=w, run=run), wd, tweak=tweak)
    if roms2:
        _bump(sit, "e2e_grid_module_ROMS2_lonlat_release" if bylonlat else "e2e_grid_module_ROMS2")
    desc = dict(grid=[imax, jmax], subgrid=sub, by_lonlat=bylonlat, layout=layout, grid_module="ladim.ROMS2" if roms2 else "ladim.ROMS")
    if not res.ok:
        V.append(C.viol(f"run with lon/lat {'release' if bylonlat else 'output'} did not complete: {res.exc}", tb=res.tb[-1200:], **desc))
        return
    recs = all_records(read_outputs(res.outputs))
    with Dataset(world["gridfile"]) as nc:
        LON = np.array(nc.variables["lon_rho"][:])
        LAT = np.array(nc.variables["lat_rho"][:])

    def bil(F, x, y):
        i, j = int(np.floor(x)), int(np.floor(y))
        p, q = x - i, y - j
        return (1 - p) * (1 - q) * F[j, i] + p * (1 - q) * F[j, i + 1] + (1 - p) * q * F[j + 1, i] + p * q * F[j + 1, i + 1]

    r0 = recs[0]
    if len(r0.pid) != npart:
        V.append(C.viol(f"first record holds {len(r0.pid)} of {npart} released particles", **desc))
        return
    if float(np.max(lon)) >= 180.0 or float(np.min(lon)) < -180.0:
        _bump(sit, "longitudes_beyond_180")
    if bylonlat:
        _bump(sit, "e2e_lonlat_release", npart)
        for k in range(npart):
            x, y = float(r0.vars["X"][k]), float(r0.vars["Y"][k])
            res2 = (bil(LON, x, y) - lon[k]) ** 2 + (bil(LAT, x, y) - lat[k]) ** 2
            if res2 > TOL * 1.0001 or np.hypot(x - X[k], y - Y[k]) > postol:
                V.append(C.viol(f"row released by lon/lat ({lon[k]:.6f},{lat[k]:.6f}) starts at ({x:.5f},{y:.5f}) whose interpolated lon/lat misses by H={res2:.3g} "
                                f"(intended position ({X[k]:.5f},{Y[k]:.5f}))", **desc))
                break
    ncmp = 0
    for r in recs:
        for k in range(len(r.pid)):
            x, y = float(r.vars["X"][k]), float(r.vars["Y"][k])
            wl, wa = bil(LON, x, y), bil(LAT, x, y)
            if "mask" in w:
                i_, j_ = int(np.floor(x)), int(np.floor(y))
                _bump(sit, "e2e_lonlat_output_in_cells_with_a_land_corner", int(Mk[j_, i_] * Mk[j_, i_ + 1] * Mk[j_ + 1, i_] * Mk[j_ + 1, i_ + 1] < 1))
            if not (abs(r.vars["lon"][k] - wl) <= lltol) or not (abs(r.vars["lat"][k] - wa) <= lltol):
                V.append(C.viol(f"record at {r.time}: pid {r.pid[k]} at ({x:.5f},{y:.5f}) has lon/lat ({r.vars['lon'][k]:.7f},{r.vars['lat'][k]:.7f}) in the file, "
                                f"bilinear interpolation of lon_rho/lat_rho there is ({wl:.7f},{wa:.7f})", **desc))
                break
            ncmp += 1
    _bump(sit, "e2e_lonlat_output", ncmp)
    if case["idx"] % 2:
        _bump(sit, "e2e_inactive_particles")
    elif layout == "dense":
        _bump(sit, "e2e_dense_layout_with_a_gap_in_the_living_pids")
    if len(res.outputs) > 1:
        _bump(sit, "e2e_split_output_files")
        for f in read_outputs(res.outputs):
            if f.layout == "sparse" and f.counts is not None and int(f.counts.sum()) != f.ninstance_dim:
                V.append(C.viol(f"{f.path.name}: sum(particle_count) = {int(f.counts.sum())} but particle_instance has {f.ninstance_dim} entries (lon/lat written beyond the record slots?)", **desc))
    moved = len(recs) > 1 and np.any(recs[-1].vars["X"] != recs[0].vars["X"][: len(recs[-1].pid)])
    if moved:
        keys.add((imax, jmax, tuple(sub or []), bylonlat, layout, round(pol["dx"])))


def run_case(case: dict[str, Any], wd: Path) -> dict[str, Any]:
    S, R = _install()
    V: list = []
    sit: dict[str, int] = {}
    cnt: dict[str, int] = {}
    keys: set = set()
    n0 = _st["n"]
    if case["kind"] == "sample2d":
        _case_sample2d(case, S, V, sit, cnt, keys)
    elif case["kind"] == "roundtrip":
        _case_roundtrip(case, R, wd, V, sit, cnt, keys)
    else:
        _case_e2e(case, wd, V, sit, cnt, keys)
    sit["post_sample2D"] = _st["n"] - n0
    sample = dict(case=case, observed={k: v for k, v in sit.items()}, distinct=len(keys), example=str(sorted(map(str, keys))[:1]))
    return C.result(V[:4], sit, cnt, nontrivial=len(keys) > 0, key=f"{case['kind']}|{case['idx']}", sample=sample, distinct_count=len(keys))
