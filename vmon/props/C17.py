"""C17 Compiled sampling kernels never read outside the forcing arrays.

Monitors: (i) numba's own bounds checker (children are started with NUMBA_BOUNDSCHECK=1 before numba is imported:
an out-of-range read in trilinear / z2s_kernel becomes IndexError); (ii) a shadow index monitor wrapped around the
real ROMS.trilinear, z2s_kernel and sample3D (numpy, evaluated before delegating to the real kernel) which also
catches the negative indices that numba silently wraps.  Workload: the C09 coastline/jet scenarios biased towards
the open boundary with RK2/RK4, subgrids, diffusion, particles at the surface and at the bottom, N = 2."""

from __future__ import annotations

from pathlib import Path
from typing import Any

import numpy as np

from vmon import common as C
from vmon.hooks import Hooks
from vmon.props import C09
from vmon.scenario import run_scenario

LEVEL = "exploration"
TECHNIQUE = "sanitizer + runtime monitor: numba bounds checking (NUMBA_BOUNDSCHECK=1) on the JIT kernels and a shadow index monitor on trilinear / z2s_kernel / sample3D during real end-to-end runs"
LEVEL_TEXT = ("The C09 scenario generator (random coastlines, jets with Courant up to 0.95 towards all four open boundaries, EF/RK2/RK4, diffusion, subgrids touching the full-grid limit, "
              "releases on the rim, particles at the surface and at the bottom, N = 2 or 3) is re-run in children with numba bounds checking forced on; every kernel call is also "
              "checked by a python-side index monitor. Evidence reports the closest approach to each array edge that was actually observed.")
LEVEL_NOTE = "numba's checker does not flag negative indices (they wrap); the shadow monitor covers those. A dying interpreter during a run counts as a violation."
RULE = ("case = C09-style world/run with boundary-hugging releases. Non-trivial: some kernel call came within one cell of an array edge; distinct by case parameters.")
MANDATORY = ["subgrid_first_column_beyond_last_row", "grid_with_more_than_2049_columns_or_rows_single_precision_forcing", "two_models_alive_and_stepped_in_turn", "warm_start_from_packed_positions", "second_run_on_same_files_larger_grid", "family_c09", "family_c14", "family_c10", "family_c08", "family_lonlat", "family_vinfo", "particles_exactly_on_level_depths", "trilinear_calls", "z2s_kernel_calls", "sample3D_nearest_calls", "within_one_cell_of_edge", "scheme_RK2", "scheme_RK4", "subgrid", "boundscheck_active",
             "surface_or_bottom_particles", "diffusion_on"]
ASSUMPTIONS = ["N >= 2 (with a single level no level pair exists)"]
BOUNDSCHECK = True
CHILD_DEATH_IS_VIOLATION = True
TIMEOUT = {"quick": 900, "thorough": 3400}


def gen_cases(tier: str, seed: int) -> list[dict[str, Any]]:
    n = 96 if tier == "quick" else 25000
    cases = []
    for i in range(n):
        c = C09.gen_case(seed + 1000, i)
        rng = C.rng_for(seed, 17, i)
        c["scheme"] = ["RK2", "RK4", "EF", "RK4", "RK2"][i % 5]
        if i % 4 == 0:
            c["subgrid"] = [1, c["imax"] - 1, 1, c["jmax"] - 1]  # touches the full-grid limit
        if i % 4 == 1:
            c["subgrid"] = [int(rng.integers(2, 5)), c["imax"] - int(rng.integers(2, 5)), int(rng.integers(2, 5)), c["jmax"] - int(rng.integers(2, 5))]
        if i % 4 == 2 and c["imax"] >= 19 and not c.get("tie"):
            c["subgrid"] = [12, c["imax"] - 1, 2, 10]  # a subgrid that lies wholly to the right of the diagonal: its first column number exceeds its last row number
        sp = 0.95 * c["dx"] / c["dt"]
        ang = [0.0, np.pi / 2, np.pi, 3 * np.pi / 2][i % 4] + float(rng.uniform(-0.5, 0.5))
        c["flow"] = dict(kind="jet", u=sp * np.cos(ang), v=sp * np.sin(ang), shear=0.3, tmod=0.0, tfreq=0.0)
        c["diffusion"] = float(rng.choice([0.0, 100.0, 400.0]))
        c["N"] = int(rng.choice([2, 3]))
        cases.append(c)
    # other properties' scenario spaces re-run under the sanitizer: C14 (variable bathymetry, N = 4, deactivated particles,
    # deaths followed by output), C10 (time-reversed multi-file runs), C08 (continuous release, restarts)
    m = 24 if tier == "quick" else 3000
    for i in range(m):
        cases.append(dict(family=["c14", "c10", "c08"][i % 3], seed=seed, idx=i))
    for i in range(12 if tier == "quick" else 1500):
        cases.append(dict(family="lonlat", seed=seed, idx=i))
    # vertical grid given through the Vinfo option, level counts over the whole documented range (incl. those where 1/N is awkward in floating point)
    for i in range(6 if tier == "quick" else 300):
        cases.append(dict(family="two", seed=seed, idx=i))
    for i in range(8 if tier == "quick" else 120):
        c = C09.gen_case(seed + 2000, i)
        c.update(family="vinfo", scheme=["RK4", "EF", "RK2"][i % 3], diffusion=0.0, N=[49, 30, 57, 60, 53, 1, 58, 41][i % 8] if tier == "quick" else 1 + (i + seed) % 60)
        cases.append(c)
    return cases


def run_case(case: dict[str, Any], wd: Path) -> dict[str, Any]:
    import os  # noqa: PLC0415

    import ladim.ROMS as R  # noqa: PLC0415

    fam = case.get("family", "c09")
    extra_scns: list[dict[str, Any]] = []
    tweak = None
    if fam in ("c09", "vinfo"):
        scn, M, box, near_rim = C09.build(case)
        scn["world"]["N"] = case.get("N", 3)
        if fam == "vinfo":
            vert = dict(Vtransform=2, Vstretching=[1, 2, 4][case["idx"] % 3], theta_s=4.0, theta_b=0.6, hc=12.0)
            scn["world"]["vert"] = vert
            vinfo = dict(N=case["N"], hc=vert["hc"], theta_s=vert["theta_s"], theta_b=vert["theta_b"], Vstretching=vert["Vstretching"], Vtransform=2)

            def tweak(conf):
                conf["grid"]["Vinfo"] = dict(vinfo)

            case = dict(case, subgrid=case.get("subgrid"), flow=case["flow"])
        # particles at the surface and at the bottom
        for k, row in enumerate(scn["run"]["release"]["rows"]):
            if k % 3 == 0:
                row[4] = 0.0
            elif k % 3 == 1:
                row[4] = 60.0
    elif fam == "c14":
        from vmon.props import C14  # noqa: PLC0415

        b = C14.base_spec(dict(seed=case["seed"], idx=case["idx"]))
        early = [r["rid"] for r in b["rows"] if r["step"] == 0]
        scn = C14.make_scn(b, b["rows"], {"2": early[:1]}, 0, {"1": early[1:3]})
        case = dict(case, scheme=b["scheme"], diffusion=0.0, subgrid=None, imax=20, jmax=16, N=4, flow=b["world"]["vel"]["kind"])
    elif fam == "c10":
        from vmon.props import C10  # noqa: PLC0415

        b = C10.build(dict(seed=case["seed"], idx=case["idx"]))
        scn, _fwd, _start = C10.scenarios(b)
        case = dict(case, scheme=b["scheme"], diffusion=0.0, subgrid=None, imax=20, jmax=16, N=3, flow="reversed " + b["pattern"]["kind"])
    elif fam == "two":
        scn = None
        case = dict(case, scheme=["EF", "RK2", "RK4"][case["idx"] % 3], diffusion=0.0, subgrid=[3, 12, 2, 10], imax=18, jmax=14, N=2, flow="two simulations alive, stepped in turn")
    elif fam == "lonlat":
        # release by longitude/latitude, some rows outside the loaded (sub)grid: wherever the conversion puts them, the kernels must stay inside
        from vmon import world as W  # noqa: PLC0415
        from vmon.props import C16  # noqa: PLC0415
        from vmon.scenario import tadd  # noqa: PLC0415

        rng = C.rng_for(case["seed"], 17, case["idx"], 7)
        imax, jmax = int(rng.integers(14, 22)), int(rng.integers(12, 18))
        wide = bool(case["idx"] % 8 in (5, 6))
        if wide:
            # a grid with more than 2049 columns (or rows), single-precision forcing: positions next to the far edge are not representable in float32
            imax, jmax = int(rng.integers(2055, 2110)), int(rng.integers(7, 10))
            if case["idx"] % 8 == 6:
                imax, jmax = jmax, imax
        pol = C16.polar_spec(rng, imax, jmax)
        dt = 600
        sub = [3, imax - 3, 2, jmax - 2] if case["idx"] % 2 else None
        i0, i1, j0, j1 = sub or [1, imax - 1, 1, jmax - 1]
        out = float(rng.choice([0.3, 0.8, 1.7, 4.0]))
        xc, yc = 0.5 * (i0 + i1), 0.5 * (j0 + j1)
        P = [(xc, yc), (i0 + 0.7, yc), (i1 - 1.7, j1 - 1.7), (i1 - 1 + out, yc), (xc, j1 - 1 + out), (i0 - out, yc), (xc, j0 - out), (i1 - 1 + out, j1 - 1 + out)]
        lon, lat = W.polar_lonlat(np.array([p[0] for p in P]), np.array([p[1] for p in P]), pol)
        ang = float(rng.uniform(0, 2 * np.pi))
        sp = 0.6 * pol["dx"] / dt
        scheme = ["RK4", "RK2", "EF"][case["idx"] % 3]
        # (wide grids: the run starts exactly on the first frame, so that the velocity field in force is the file's single-precision array itself)
        scn = dict(world=dict(imax=imax, jmax=jmax, N=3, t0=str(tadd(C.T0, 0 if wide else -3600)), frames=[0, 3 * 3600], files=[2], vel=dict(kind="const", u=sp * np.cos(ang), v=sp * np.sin(ang)),
                              metric=pol, lonlat=pol, store="f4"),
                   run=dict(start=C.T0, stop=str(tadd(C.T0, 5 * dt)), dt=dt, advection=scheme, subgrid=sub,
                            release=dict(columns=["release_time", "lon", "lat", "Z"], rows=[[C.T0, float(lon[k]), float(lat[k]), [0.0, 5.0, 60.0][k % 3]] for k in range(len(P))], header=True),
                            output=dict(period=dt)))
        case = dict(case, scheme=scheme, diffusion=0.0, subgrid=sub, imax=imax, jmax=jmax, N=3, flow="lon/lat release, rows outside the grid", wide=wide)
    else:
        from vmon.props import C08  # noqa: PLC0415

        scn, par = C08.build(dict(seed=case["seed"], idx=case["idx"]))
        case = dict(case, scheme=par["scheme"], diffusion=0.0, subgrid=None, imax=22, jmax=18, N=3, flow="c08 jet")
    V: list = []
    sit: dict[str, int] = {}
    cnt: dict[str, int] = {}
    desc = dict(scheme=case["scheme"], diffusion=case["diffusion"], subgrid=case["subgrid"], idx=case["idx"])
    margin = dict(min_i=10**9, min_j=10**9, max_i_gap=10**9, max_j_gap=10**9)
    known_only = [False]

    def shadow_tri(F, X, Y, K, A):
        sit["trilinear_calls"] = sit.get("trilinear_calls", 0) + 1
        if len(V) > 2 or len(X) == 0:
            return None
        nz, ny, nx = F.shape
        X = np.asarray(X)
        Y = np.asarray(Y)
        K = np.asarray(K)
        if len(K) < len(X) or len(A) < len(X):
            V.append(C.viol(f"trilinear called with {len(X)} positions but only {len(K)} level indices / {len(A)} weights: reads beyond the index arrays", **desc))
            return None
        K = K[: len(X)]  # longer (stale) index arrays are not an out-of-range read; the misalignment is C14's subject
        i = X.astype(int)
        j = Y.astype(int)
        margin["min_i"] = min(margin["min_i"], int(np.floor(X.min())))
        margin["min_j"] = min(margin["min_j"], int(np.floor(Y.min())))
        margin["max_i_gap"] = min(margin["max_i_gap"], int(nx - 1 - (i.max() + 1)))
        margin["max_j_gap"] = min(margin["max_j_gap"], int(ny - 1 - (j.max() + 1)))
        bad_h = (X < 0) | (Y < 0) | (i + 1 > nx - 1) | (j + 1 > ny - 1) | ~np.isfinite(X) | ~np.isfinite(Y)
        bad = bad_h | (K < 1) | (K > nz - 1)
        if np.any(bad):
            k = int(np.nonzero(bad)[0][0])
            # known finding F23: with a single s-level no pair (k-1, k) of levels exists; matched only when the level index alone is out of range
            mech = "single_s_level_forcing" if (nz == 1 and not np.any(bad_h)) else None
            V.append(C.viol(f"trilinear would read outside the field array: local position ({X[k]:.6f},{Y[k]:.6f}), level index {int(K[k])}, array shape {F.shape} "
                            f"(elements [k-1..k, j..j+1, i..i+1] = [{int(K[k]) - 1}..{int(K[k])}, {int(j[k])}..{int(j[k]) + 1}, {int(i[k])}..{int(i[k]) + 1}])", mechanism=mech, **desc))
            if mech:
                known_only[0] = True
        return None

    def shadow_z2s(I, J, Z, z_rho):  # noqa: E741
        sit["z2s_kernel_calls"] = sit.get("z2s_kernel_calls", 0) + 1
        if len(V) > 2 or len(I) == 0:
            return None
        _nz, ny, nx = z_rho.shape
        I = np.asarray(I)  # noqa: E741
        J = np.asarray(J)
        bad = (I < 0) | (I > nx - 1) | (J < 0) | (J > ny - 1)
        if np.any(bad):
            k = int(np.nonzero(bad)[0][0])
            V.append(C.viol(f"z2s_kernel would read column (j={int(J[k])}, i={int(I[k])}) outside z_rho of shape {z_rho.shape}", **desc))
        return None

    def shadow_s3d(F, X, Y, K, A, method="bilinear"):
        if method == "bilinear":
            return None
        sit["sample3D_nearest_calls"] = sit.get("sample3D_nearest_calls", 0) + 1
        if len(V) > 2 or len(X) == 0:
            return None
        nz, ny, nx = F.shape
        I = np.asarray(X).round().astype(int)  # noqa: E741
        J = np.asarray(Y).round().astype(int)
        K = np.asarray(K)
        if len(K) < len(I):
            V.append(C.viol(f"sample3D(nearest) called with {len(I)} positions but only {len(K)} level indices", **desc))
            return None
        K = K[: len(I)]
        bad = (I < 0) | (I > nx - 1) | (J < 0) | (J > ny - 1) | (K < 0) | (K > nz - 1)
        if np.any(bad):
            k = int(np.nonzero(bad)[0][0])
            V.append(C.viol(f"sample3D(nearest) would read element [{int(K[k])},{int(J[k])},{int(I[k])}] outside a field of shape {F.shape}", **desc))
        return None

    if fam == "c09":
        scn["run"]["extra_forcing"] = ["temp"]
        scn["world"]["scalars"] = dict(temp=dict(kind="coded"))
        scn["run"]["state"] = dict(instance_variables=dict(temp="float"), default_values=dict(temp=0.0))
    pre_world = None
    if fam in ("c09", "vinfo") and not (fam == "c09" and case["idx"] % 3 == 0):  # (not before the two-runs-on-the-same-files history: no Grid of this file may exist yet)
        # particles exactly on level depths (as the model itself computes them, bit for bit): uppermost, lowest and a middle rho-level
        from vmon import world as W  # noqa: PLC0415

        pre_world = W.write_world(wd / "world", scn["world"])
        try:
            g0 = R.Grid(filename=str(pre_world["gridfile"]), subgrid=case["subgrid"], **(dict(Vinfo=dict(vinfo)) if fam == "vinfo" else {}))
            for k, row in enumerate(scn["run"]["release"]["rows"]):
                if k % 5 == 2 and row[1] > 0:
                    jj, ii = int(round(row[3])) - g0.j0, int(round(row[2])) - g0.i0
                    lev = [-1, 0, g0.z_r.shape[0] // 2][(k // 5) % 3]
                    row[4] = float(-g0.z_r[lev, jj, ii])
        except Exception:  # noqa: BLE001
            pass  # a Grid that cannot be built shows up in the run itself
    sit["family_" + fam] = 1
    with Hooks() as hk:
        hk.wrap(R, "trilinear", shadow_tri, None)
        hk.wrap(R, "z2s_kernel", shadow_z2s, None)
        hk.wrap(R, "sample3D", shadow_s3d, None)
        if fam == "c09" and case["idx"] % 3 == 0:
            # history: first a run on a small subgrid of the same files, then (same process, same file names) the run proper
            import copy  # noqa: PLC0415

            pre = copy.deepcopy(scn)
            pre["run"]["subgrid"] = [3, max(8, case["imax"] // 2), 2, max(7, case["jmax"] // 2)]
            pre["run"]["release"]["rows"] = [[scn["run"]["start"], 1, 4.6, 3.6, 1.0]]
            pre["run"]["ibm"] = {}
            pre["run"]["output"] = dict(scn["run"]["output"], filename="pre.nc")
            _r0, _c0, world0 = run_scenario(pre, wd, conf_name="pre.yaml")
            res, conf, world = run_scenario(dict(world=None, run=scn["run"]), wd, world=world0)
            sit["second_run_on_same_files_larger_grid"] = 1
        elif fam == "two":
            # two Model objects in one process (whole grid / small subgrid of other files), stepped in turn: every kernel call stays inside its own arrays
            from vmon.props import C19  # noqa: PLC0415
            from vmon.scenario import RunResult  # noqa: PLC0415

            r19 = C19.run_two_models(dict(kind="two_models", idx=case["idx"], seed=case["seed"]), wd)
            failed = [v_ for v_ in r19.get("violations", []) if "stepped in turn:" in v_.get("what", "")]
            res = RunResult("error", exc=failed[0]["what"], tb=str(failed[0].get("detail", {}).get("tb", ""))) if failed else RunResult("ok")
            sit["two_models_alive_and_stepped_in_turn"] = 1
        elif fam == "c08":
            # the restart scenario proper: X and Y stored packed in the output, a continuation warm-started from the first file, kernels watched throughout
            scn["run"]["output"]["instance"]["X"] = dict(datatype="i4", scale_factor=1.0e-4)
            scn["run"]["output"]["instance"]["Y"] = dict(datatype="i4", scale_factor=1.0e-4)
            res, conf, world = run_scenario(scn, wd)
            if res.ok and len(res.outputs) > 1:
                run2 = dict(scn["run"], warm_start=dict(filename=str(res.outputs[0]), variables=[v_ for v_ in ("release_time", "age", "weight", "temp")
                                                                                                 if v_ in scn["run"]["state"]["instance_variables"] or v_ in scn["run"]["state"].get("particle_variables", {})]))
                run2["output"] = dict(scn["run"]["output"], filename="restart_001.nc")
                res2, _c2, _w2 = run_scenario(dict(world=None, run=run2), wd / "restart", world=world)
                sit["warm_start_from_packed_positions"] = 1
                if not res2.ok:
                    res = res2
        elif pre_world is not None:
            res, conf, world = run_scenario(dict(world=None, run=scn["run"]), wd, world=pre_world, tweak=tweak)
            sit["particles_exactly_on_level_depths"] = 1
        else:
            res, conf, world = run_scenario(scn, wd)
    sit["boundscheck_active"] = int(os.environ.get("NUMBA_BOUNDSCHECK") == "1")
    sit[f"scheme_{case['scheme']}"] = 1
    sit["subgrid"] = int(case["subgrid"] is not None)
    sit["subgrid_first_column_beyond_last_row"] = int(bool(case["subgrid"]) and case["subgrid"][0] >= case["subgrid"][3] - 1 and case["scheme"] in ("RK2", "RK4"))
    sit["grid_with_more_than_2049_columns_or_rows_single_precision_forcing"] = int(bool(case.get("wide")))
    sit["diffusion_on"] = int(case["diffusion"] > 0)
    sit["surface_or_bottom_particles"] = int(fam == "c09")
    edge = min(margin["min_i"], margin["min_j"], margin["max_i_gap"], margin["max_j_gap"])
    sit["within_one_cell_of_edge"] = int(edge <= 0)
    for k, v in margin.items():
        if v < 10**9:
            cnt["min_" + k] = v
    if not res.ok:
        if "IndexError" in res.exc or "out of bounds" in res.exc:
            V.append(C.viol(f"bounds checker: {res.exc}", tb=res.tb[-1500:], mechanism="single_s_level_forcing" if (known_only[0] and case.get("N") == 1) else None, **desc))
        else:
            V.append(C.viol(f"run did not complete: {res.exc}", tb=res.tb[-1500:], **desc))
    key = str({k: v for k, v in case.items() if k not in ("land",)})
    sample = dict(family=fam, grid=[case["imax"], case["jmax"], case.get("N", 3)], subgrid=case["subgrid"], scheme=case["scheme"], diffusion=case["diffusion"], flow=case["flow"],
                  closest_approach_to_array_edges=margin, kernel_calls={k: sit.get(k, 0) for k in ("trilinear_calls", "z2s_kernel_calls", "sample3D_nearest_calls")})
    return C.result(V[:3], sit, cnt, nontrivial=edge <= 0, key=key, sample=sample)
