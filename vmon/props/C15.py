"""C15 Depth stays within the water column.

Monitor: exact reflect reference at the Tracker.update boundary.  The real Tracker is driven over random
bathymetry with horizontal advection moving particles across cells in the same step; the vertical random
velocity returned by the real diffuse_vert is spied, so the expected depth is known exactly:
Z' = reflect(Z + (W_diff + w) * dt) at the surface and at the bottom depth of the cell occupied when the step began.
An end-to-end variant checks the bound on the output files of runs with the stock ROMS grid."""

from __future__ import annotations

from pathlib import Path
from typing import Any

import numpy as np

from vmon import common as C
from vmon.hooks import Hooks
from vmon.scenario import all_records, read_outputs, run_scenario, tadd

LEVEL = "exploration"
TECHNIQUE = "runtime monitoring: exact reflecting-boundary reference at the Tracker.update boundary (diffuse_vert spied) + bound check on output files of end-to-end runs with vertical diffusion/advection"
LEVEL_TEXT = ("Step-cases with 10^3 particles each: random steep and flat bathymetry, start depths in [0,h] incl. 0 and h, Dz and w scaled so that the displacement spans 1e-6*h .. 0.999*h, "
              "EF/RK2/RK4 moving particles across cells during the same step; after every step 0 <= Z <= h(start cell) and Z equals the reflect reference to 1e-9*h; with both switched off Z is untouched. "
              "End-to-end runs on ROMS files check the bound record by record.")
LEVEL_NOTE = "Asserted only where |vertical displacement| < h(start cell), as the property states. Trusts the spied W as the diffusion draw (its statistics are C11)."
RULE = ("case = direct (bathymetry seed, Dz, w, scheme, flow) or e2e (ROMS world, Dz, w). Non-trivial: some particle was reflected at the surface or at the bottom and some particle "
        "changed cell during the step; distinct by parameters.")
MANDATORY = ["e2e_both_switched_off_with_w_among_the_forcing_variables", "e2e_w_packed_differently_in_each_forcing_file", "vertical_advection_on_with_w_exactly_zero_and_diffusion", "e2e_second_run_on_rewritten_shallower_files", "e2e_horizontal_diffusion_too", "e2e_forcing_files_with_other_bathymetry", "e2e_grid_module_ROMS2", "e2e_vtransform1_cells_shallower_than_hc", "reflected_at_surface", "reflected_at_bottom", "changed_cell_same_step", "start_at_surface_or_bottom", "vertical_advection", "vertical_diffusion",
             "both_off_untouched", "steps_checked", "e2e_records_checked", "large_displacement_fraction", "e2e_subgrid_off_diagonal", "inactive_particles_reflected", "e2e_inactive_particles"]
ASSUMPTIONS = ["|displacement| < h of the start cell (larger ones are outside the property)"]
TIMEOUT = {"quick": 900, "thorough": 3400}


def gen_cases(tier: str, seed: int) -> list[dict[str, Any]]:
    q = tier == "quick"
    cases = [dict(kind="direct", seed=seed, idx=i) for i in range(100 if q else 50000)]
    cases += [dict(kind="e2e", seed=seed, idx=i) for i in range(16 if q else 2000)]
    return cases


def _bump(sit, k, v=1):
    sit[k] = sit.get(k, 0) + int(v)


def _direct(case, V, sit, cnt):
    from ladim.state import State  # noqa: PLC0415
    from ladim.timekeeper import TimeKeeper  # noqa: PLC0415
    from ladim.tracker import Tracker  # noqa: PLC0415

    from vmon.plugins import ana_forcing, ana_grid  # noqa: PLC0415

    rng = C.rng_for(case["seed"], 15, case["idx"])
    mode = case["idx"] % 5  # 0 diff, 1 adv, 2 both, 3 off, 4 diff steep
    dt = int(rng.choice([60, 600, 3600]))
    nx, ny = 40.0, 30.0
    hmin, hmax = (2.0, 500.0) if mode == 4 else ((50.0, 50.0001) if case["idx"] % 7 == 0 else (10.0, 300.0))
    frac = float(10 ** rng.uniform(-6, -0.0005))  # typical |displacement| / hmin
    Dz = (frac * hmin) ** 2 / (2 * dt) / 9.0 if mode in (0, 2, 4) else 0.0  # 3 sigma ~ frac*hmin
    w = float(rng.choice([-1, 1])) * frac * hmin / dt * 0.9 if mode in (1, 2) else None
    if mode == 2 and case["idx"] % 10 == 2:
        w = 0.0  # vertical advection switched on in water that happens to have no vertical velocity: the random walk alone crosses the boundaries
    scheme = ["EF", "RK2", "RK4"][case["idx"] % 3]
    sp = 0.8 * 1000.0 / dt
    flow = dict(kind="jet", u=sp * float(rng.uniform(-1, 1)), v=sp * float(rng.uniform(-1, 1)), shear=0.3)
    timer = TimeKeeper(start=C.T0, stop=str(tadd(C.T0, dt * 6)), dt=dt)
    state = State()
    modules: dict[str, Any] = dict(time=timer, state=state)
    grid = ana_grid.Grid(modules, xmin=0.0, xmax=nx, ymin=0.0, ymax=ny, dx=1000.0, depth_seed=case["idx"], hmin=hmin, hmax=hmax)
    modules["grid"] = grid
    forcing = ana_forcing.Forcing(modules, flow=flow, w=w, record=False)
    modules["forcing"] = forcing
    tr = Tracker(advection=scheme, vertdiff=Dz, vertical_advection=w is not None, modules=modules)
    tr.rng = np.random.default_rng(case["idx"] + 17 * case["seed"])
    n = 1000
    X = rng.uniform(6, nx - 6, size=n)
    Y = rng.uniform(6, ny - 6, size=n)
    h0 = grid.depth(X, Y)
    Z = rng.uniform(0, 1, size=n) * h0
    Z[:50] = 0.0
    Z[50:100] = h0[50:100]
    Z[100:130] = h0[100:130] * (1 - 1e-12)
    state.append(X=X, Y=Y, Z=Z)
    inactive = np.zeros(n, bool)
    if case["idx"] % 2:
        # particles an IBM has switched off (alive, not moved horizontally) are still "every particle" of the property
        inactive = rng.random(n) < 0.35
        state["active"] = ~inactive
    _bump(sit, "start_at_surface_or_bottom", 100)
    spy: dict[str, Any] = {}
    desc = dict(mode=["diffusion", "advection", "both", "off", "diffusion_steep"][mode], Dz=Dz, w=w, dt=dt, scheme=scheme, hmin=hmin, hmax=hmax, idx=case["idx"])
    with Hooks() as hk:
        def after_dv(tok, res, self, num_particles):
            spy["W"] = np.array(res, float).copy()

        hk.wrap(Tracker, "diffuse_vert", None, after_dv)
        for s in range(4):
            timer.update()
            forcing.update()
            Xb, Yb, Zb = state.X.copy(), state.Y.copy(), state.Z.copy()
            hb = grid.depth(Xb, Yb)
            spy.clear()
            tr.update()
            Zn = np.asarray(state.Z)
            _bump(sit, "steps_checked")
            if mode == 3:
                if np.any(Zn != Zb):
                    V.append(C.viol("depth changed although vertical diffusion and vertical advection are both switched off", **desc))
                    return
                _bump(sit, "both_off_untouched")
                continue
            disp = np.zeros(n)
            if Dz > 0:
                if "W" not in spy:
                    V.append(C.viol("vertical diffusion configured but diffuse_vert was not called", **desc))
                    return
                disp = disp + spy["W"] * dt
                _bump(sit, "vertical_diffusion")
            if w is not None:
                disp = disp + w * dt
                _bump(sit, "vertical_advection")
                if w == 0.0 and Dz > 0:
                    _bump(sit, "vertical_advection_on_with_w_exactly_zero_and_diffusion")
            # the property quantifies over start depths in [0, h]: a particle that was carried horizontally into
            # shallower water in an earlier step may already be below the bottom of its start cell (not judged)
            ok = (np.abs(disp) < hb) & (Zb >= 0) & (Zb <= hb)
            _bump(sit, "start_below_bottom_not_judged", int(np.sum(Zb > hb)))
            zz = Zb + disp
            ref = np.where(zz < 0, -zz, zz)
            ref = np.where(ref > hb, 2 * hb - ref, ref)
            _bump(sit, "reflected_at_surface", int(np.sum(ok & (zz < 0))))
            _bump(sit, "reflected_at_bottom", int(np.sum(ok & (zz > hb))))
            _bump(sit, "large_displacement_fraction", int(np.sum(ok & (np.abs(disp) > 0.5 * hb))))
            _bump(sit, "inactive_particles_reflected", int(np.sum(ok & inactive & ((zz < 0) | (zz > hb)))))
            changed = (np.round(state.X) != np.round(Xb)) | (np.round(state.Y) != np.round(Yb))
            _bump(sit, "changed_cell_same_step", int(np.sum(changed)))
            cnt["particle_steps_compared"] = cnt.get("particle_steps_compared", 0) + int(ok.sum())
            bad = ok & ((Zn < 0) | (Zn > hb) | ~np.isfinite(Zn))
            if np.any(bad):
                k = int(np.nonzero(bad)[0][0])
                V.append(C.viol(f"depth {Zn[k]:.6f} m outside [0, {hb[k]:.6f}] (bottom depth of the start cell) after a displacement of {disp[k]:.6f} m from {Zb[k]:.6f} m", **desc))
                return
            bad = ok & ~(np.abs(Zn - ref) <= 1e-9 * np.maximum(hb, 1.0))
            if np.any(bad):
                k = int(np.nonzero(bad)[0][0])
                V.append(C.viol(f"depth {Zn[k]:.9f} m, reflecting boundaries give {ref[k]:.9f} m (start {Zb[k]:.9f}, displacement {disp[k]:.9f}, h {hb[k]:.6f}, "
                                f"particle {'changed' if changed[k] else 'kept'} cell)", **desc))
                return


def _e2e(case, wd, V, sit, cnt):
    rng = C.rng_for(case["seed"], 15, case["idx"], 9)
    imax, jmax, N = 18, 14, 5
    dt = 600
    nsteps = 10
    hmin = 15.0
    shallow_v1 = bool(case["idx"] % 4 == 3)
    if shallow_v1:
        hmin = 4.0  # banks shallower than hc on a Vtransform 1 grid (the levels fold there; the water column is still [0, h])
    mode = case["idx"] % 3  # 0 diffusion, 1 advection, 2 both
    both_off = bool(case["idx"] % 8 == 6)  # neither switched on, although the forcing carries w (wanted as an output variable only): depth must not change
    Dz = (hmin / 8.0) ** 2 / (2 * dt) * float(rng.uniform(0.05, 1.0)) if mode in (0, 2) else 0.0
    wv = float(rng.choice([-1, 1])) * 0.4 * hmin / dt if mode in (1, 2) else 0.0
    start = C.T0
    sp = 0.5 * 1000.0 / dt
    w = dict(imax=imax, jmax=jmax, N=N, t0=str(tadd(start, -dt)), frames=[0, 20 * dt], files=[2], h=dict(kind="random", hmin=hmin, hmax=120.0, seed=case["idx"]),
             vel=dict(kind="const", u=sp * float(rng.uniform(-1, 1)), v=sp * float(rng.uniform(-1, 1))), metric=dict(kind="uniform", dx=1000.0, dy=1000.0),
             vert=dict(Vtransform=2, Vstretching=4, theta_s=3.0, theta_b=0.5, hc=10.0), scalars=dict(w=dict(kind="const", value=wv, w_levels=True)))
    packed_w = bool(case["idx"] % 4 == 1 and mode in (1, 2) and case["idx"] % 5 != 4)
    if packed_w:
        # w stored packed, each forcing file with its own scale factor (the value is a multiple of both, so nothing is lost in either file)
        wv = float(np.round(wv * 2.0**15) / 2.0**15)
        w["scalars"] = dict(w=dict(kind="const", value=wv, w_levels=True))
        w["frames"], w["files"] = [0, 4 * dt, 20 * dt], [1, 2]
        w["pack"] = dict(w=(2.0**-16, 0.0))
        w["pack_per_file"] = [dict(w=(2.0**-16, 0.0)), dict(w=(2.0**-15, 0.0))]
        _bump(sit, "e2e_w_packed_differently_in_each_forcing_file")
    if shallow_v1:
        w["vert"] = dict(Vtransform=1, Vstretching=1, theta_s=3.0, theta_b=0.4, hc=10.0, write_Vtransform=bool(case["idx"] % 8 == 3))
        _bump(sit, "e2e_vtransform1_cells_shallower_than_hc")
    H = __import__("vmon.world", fromlist=["make_h"]).make_h(w["h"], jmax, imax)
    npart = 40
    X = rng.uniform(7, imax - 6, size=npart)
    Y = rng.uniform(6, jmax - 6, size=npart)
    h0 = H[np.round(Y).astype(int), np.round(X).astype(int)]
    Z = rng.uniform(0, 1, size=npart) * h0
    Z[:5] = 0.0
    Z[5:10] = h0[5:10]
    rows = [[start, float(X[k]), float(Y[k]), float(Z[k])] for k in range(npart)]
    sub = [None, [2, imax - 1, 4, jmax - 1], [5, imax - 1, 1, jmax - 2]][case["idx"] % 3]
    run = dict(start=start, stop=str(tadd(start, nsteps * dt)), dt=dt, advection="EF", vertdiff=Dz, subgrid=sub, release=dict(columns=["release_time", "X", "Y", "Z"], rows=rows, header=True),
               output=dict(period=dt))
    if sub:
        _bump(sit, "e2e_subgrid_off_diagonal")
    if case["idx"] % 2:
        run["ibm"] = dict(module=C.REC_IBM, deactivate={"1": list(range(0, npart, 2))}, log=False)
        _bump(sit, "e2e_inactive_particles")
    if both_off:
        run.pop("vertdiff", None)
        wv = 0.4 * hmin / dt
        w["scalars"] = dict(w=dict(kind="const", value=wv, w_levels=True))
        run["extra_forcing"] = ["w"]
        run["state"] = dict(instance_variables=dict(w="float"), default_values=dict(w=0.0))
        _bump(sit, "e2e_both_switched_off_with_w_among_the_forcing_variables")
    elif mode in (1, 2):
        run["vertical_advection"] = True
        run["extra_forcing"] = ["w"]
        run["state"] = dict(instance_variables=dict(w="float"), default_values=dict(w=0.0))
    roms2 = bool(case["idx"] % 5 == 4)

    def tweak(conf):
        if roms2:  # the documented alternative grid/forcing module (adaptive subgrid), as in examples/*/adapt.yaml
            conf["grid"]["module"] = "ladim.ROMS2"
            conf["forcing"]["module"] = "ladim.ROMS2"
            conf["grid"].pop("subgrid", None)

    if roms2:
        _bump(sit, "e2e_grid_module_ROMS2")
    if case["idx"] % 2 == 0:
        run["diffusion"] = 0.5 * (0.1 * 1000.0) ** 2 / dt  # horizontal diffusion in the same run (steps of about a tenth of a cell)
        _bump(sit, "e2e_horizontal_diffusion_too")
    # the grid file is a file of its own; the forcing files carry a different (deeper) bathymetry that must not be used
    from netCDF4 import Dataset  # noqa: PLC0415

    from vmon import world as W  # noqa: PLC0415

    pre = W.write_world(wd / "world", w)
    if case["idx"] % 3 == 1:
        for fn in pre["files"]:
            with Dataset(fn, "r+") as nc:
                nc.variables["h"][:] = np.array(nc.variables["h"][:]) + 60.0
        _bump(sit, "e2e_forcing_files_with_other_bathymetry")
    res, conf, world = run_scenario(dict(world=None, run=run), wd, world=pre, tweak=tweak)
    desc = dict(kind="e2e", Dz=Dz, w=wv, idx=case["idx"], grid_module="ladim.ROMS2" if roms2 else "ladim.ROMS")
    if not res.ok:
        V.append(C.viol(f"end-to-end run with vertical motion did not complete: {res.exc}", tb=res.tb[-1200:], **desc))
        return
    def judge(recs, H, where=""):
        prev = None
        for r in recs:
            cur = {int(p): (float(r.vars["X"][k]), float(r.vars["Y"][k]), float(r.vars["Z"][k])) for k, p in enumerate(r.pid)}
            if prev is not None:
                for p, (x, y, z) in cur.items():
                    if p not in prev:
                        continue
                    hb = H[int(round(prev[p][1])), int(round(prev[p][0]))]
                    if not (0.0 <= prev[p][2] <= hb):
                        continue  # start depth outside [0, h]: outside the property's quantifier
                    if both_off and z != prev[p][2]:
                        V.append(C.viol(f"{where}record at {r.time}: pid {p} changed its depth from {prev[p][2]!r} to {z!r} although vertical diffusion and vertical advection are both "
                                        f"switched off (w = {wv} is among the forcing variables)", **desc))
                        return False
                    if not (0.0 <= z <= hb + 1e-9):
                        V.append(C.viol(f"{where}record at {r.time}: pid {p} at depth {z:.6f} m, bottom depth of the cell it occupied when the step began is {hb:.6f} m", **desc))
                        return False
                    if mode == 1 and not both_off and abs(wv * dt) < hb:
                        zz = prev[p][2] + wv * dt
                        ref = -zz if zz < 0 else zz
                        ref = 2 * hb - ref if ref > hb else ref
                        if not abs(z - ref) <= 1e-9 * hb:
                            V.append(C.viol(f"{where}record at {r.time}: pid {p} depth {z:.9f}, advection by w = {wv} with reflecting boundaries gives {ref:.9f}", **desc))
                            return False
                _bump(sit, "e2e_records_checked")
            prev = cur
        return True

    if not judge(all_records(read_outputs(res.outputs)), H):
        return
    if case["idx"] % 4 == 0 and not shallow_v1:
        # the same paths, rewritten with a shallower bathymetry, and a second run in the same process: the bottom is that of the files as they are now
        w2 = dict(w, h=dict(kind="random", hmin=hmin, hmax=45.0, seed=case["idx"]))
        H2 = W.make_h(w2["h"], jmax, imax)
        pre2 = W.write_world(wd / "world", w2)
        if [str(f) for f in pre2["files"]] == [str(f) for f in pre["files"]] and str(pre2["gridfile"]) == str(pre["gridfile"]):
            h2 = H2[np.round(Y).astype(int), np.round(X).astype(int)]
            Z2 = np.minimum(Z, h2)
            Z2[5:10] = h2[5:10]
            run2 = dict(run, release=dict(run["release"], rows=[[start, float(X[k]), float(Y[k]), float(Z2[k])] for k in range(npart)]), output=dict(period=dt, filename="second.nc"))
            res2, _c2, _w2 = run_scenario(dict(world=None, run=run2), wd, conf_name="second.yaml", world=pre2, tweak=tweak)
            _bump(sit, "e2e_second_run_on_rewritten_shallower_files")
            if not res2.ok:
                V.append(C.viol(f"second run on the rewritten files did not complete: {res2.exc}", tb=res2.tb[-1200:], **desc))
                return
            if not judge(all_records(read_outputs(res2.outputs)), H2, "second run in the same process, grid and forcing files rewritten with a shallower bathymetry under the same names: "):
                return
    _bump(sit, "vertical_diffusion", int(Dz > 0))
    _bump(sit, "vertical_advection", int(mode in (1, 2)))


def run_case(case: dict[str, Any], wd: Path) -> dict[str, Any]:
    V: list = []
    sit: dict[str, int] = {}
    cnt: dict[str, int] = {}
    if case["kind"] == "direct":
        _direct(case, V, sit, cnt)
    else:
        _e2e(case, wd, V, sit, cnt)
    nontrivial = sit.get("reflected_at_surface", 0) + sit.get("reflected_at_bottom", 0) > 0 or sit.get("e2e_records_checked", 0) > 0
    return C.result(V[:3], sit, cnt, nontrivial=nontrivial, key=f"{case['kind']}|{case['idx']}", sample=dict(case=case, observed=sit))
