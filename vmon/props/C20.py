"""C20 Impossible set-ups are refused before the simulation starts.

Fault-injection matrix: every single fault of the listed kinds is injected into every valid base scenario
(forward/reversed x single/multi-file forcing x discrete/continuous release, plus random bases in the thorough
tier).  Monitors: hooks count Model.update and Output.write calls; the run must raise SystemExit (non-zero) or
another exception before the first Model.update, Output.write must never be called and no output file may contain
a record.  The fault-free base must run (otherwise the case is void).  A sample of faults is also run through
`python -m ladim` in a subprocess to observe the real exit status."""

from __future__ import annotations

import copy

import numpy as np
import subprocess
import sys
from pathlib import Path
from typing import Any

import yaml
from netCDF4 import Dataset

from vmon import common as C
from vmon import world as W
from vmon.env import REPO, VERIF
from vmon.hooks import Hooks
from vmon.scenario import build_config, output_files, run_ladim, tadd

LEVEL = "fault_enumeration"
TECHNIQUE = "runtime monitoring under fault enumeration: single faults injected into valid base scenarios, hooks on Model.update / Output.write, exit status of `python -m ladim`, output files inspected for records"
LEVEL_TEXT = ("Each of ~30 single faults (forcing not covering the window, frames out of order within/across files, duplicated frame, missing start/stop/dt, stop on the wrong side, all "
              "releases before start / at or after stop, release table without a position, missing config/grid/forcing/release file, missing tracker/time/release/output/forcing section, "
              "illegal subgrids) is injected into each of 8 base scenarios (quick) plus 400 random bases (thorough); the real start-up must refuse every one before the first step and write no record.")
LEVEL_NOTE = "Single faults only. 'Refused' = SystemExit with a non-zero code or any other exception raised before the first Model.update; the fault-free base must complete, otherwise the case is void and not counted."
RULE = ("case = (base, fault). Non-trivial: the base ran and the fault is really present in the files/configuration written (e.g. the unsorted frame times are read back); distinct by (base, fault).")
MANDATORY = ["lonlat_release_with_a_grid_plugin_that_cannot_convert", "coverage_fault_with_the_ROMS2_modules", "release_rows_outside_the_window_not_in_time_order", "forcing_ends_inside_the_last_partial_step_reversed", "forcing_ends_inside_the_last_partial_step_forward", "fault_in_a_version_1_configuration", "fault_in_a_warm_started_setup", "forcing_files_with_different_time_units", "refused_before_first_step", "base_forward", "base_reversed", "base_multifile", "base_continuous", "subprocess_exit_status_checked", "fault_presence_verified", "fault_written_over_a_valid_setup", "base_with_legal_negative_subgrid", "subgrid_fault_with_negative_limits"]
ASSUMPTIONS = ["single faults (no combinations)"]
TIMEOUT = {"quick": 1200, "thorough": 3500}

FAULTS = ["forcing_ends_early", "forcing_starts_late", "forcing_starts_late_substep", "forcing_ends_early_substep", "frames_unsorted_in_file", "frames_unsorted_across_files", "frame_duplicated_across_files",
          "missing_start", "missing_stop", "missing_dt", "stop_on_wrong_side", "releases_all_before_start", "releases_all_at_stop", "releases_all_after_stop", "releases_straddle_window",
          "release_without_position", "release_with_X_only", "release_with_Y_only", "missing_config_file", "missing_grid_file", "missing_forcing_file", "missing_release_file",
          "missing_tracker_section", "missing_time_section", "missing_release_section", "missing_output_section", "missing_forcing_section",
          "subgrid_i0_lt_1", "subgrid_i1_gt_max", "subgrid_i0_ge_i1", "subgrid_j0_lt_1", "subgrid_j1_gt_max", "subgrid_j0_ge_j1", "subgrid_i0_eq_i1",
          "subgrid_i0_far_negative", "subgrid_j0_far_negative", "subgrid_negative_i1_le_i0", "subgrid_negative_j1_le_j0", "subgrid_i1_minus_imax",
          "v1_missing_grid_file", "v1_missing_forcing_file", "warm_start_stop_not_after_restart_time",
          "last_frame_duplicated", "last_frame_steps_back", "continuous_release_without_a_tick_in_the_window",
          "forcing_ends_inside_the_last_partial_step", "releases_straddle_window_rows_not_in_time_order", "roms2_forcing_ends_early", "roms2_forcing_starts_late", "plugin_grid_without_conversion_lonlat_release"]


def bases(tier: str, seed: int) -> list[dict[str, Any]]:
    out = []
    k = 0
    for rev in (False, True):
        for multi in (False, True):
            for cont in (False, True):
                out.append(dict(id=k, reversed=rev, multi=multi, cont=cont, dt=600, ns=8, frames=[-2, 1, 3, 6, 9, 11], files=[2, 1, 3] if multi else [6], rel_steps=[0, 2, 5], freq=2))
                k += 1
    if tier == "thorough":
        for i in range(400):
            rng = C.rng_for(seed, 20, i)
            ns = int(rng.integers(3, 15))
            fr = [-int(rng.integers(0, 4))]
            while fr[-1] < ns:
                fr.append(fr[-1] + int(rng.integers(1, 5)))
            fr.append(fr[-1] + int(rng.integers(1, 3)))
            multi = bool(rng.random() < 0.6)
            files = []
            left = len(fr)
            while left:
                c = int(rng.integers(1, min(left, 3) + 1)) if multi else left
                files.append(c)
                left -= c
            rel = sorted({0} | {int(s) for s in rng.integers(0, ns, size=2)})
            out.append(dict(id=k, reversed=bool(rng.random() < 0.5), multi=len(files) > 1, cont=bool(rng.random() < 0.5), dt=int(rng.choice([300, 600, 3600])), ns=ns,
                            frames=fr, files=files, rel_steps=rel, freq=int(rng.integers(1, 3))))
            k += 1
    return out


def gen_cases(tier: str, seed: int) -> list[dict[str, Any]]:
    cases = []
    for b in bases(tier, seed):
        for f in FAULTS:
            if f in ("releases_all_before_start", "releases_straddle_window", "releases_straddle_window_rows_not_in_time_order") and b["cont"]:
                continue  # not a fault: in continuous mode rows before the start keep releasing at every tick inside the window
            if f.startswith("v1_") and b["reversed"]:
                continue  # the legacy spelling is exercised for forward runs
            cases.append(dict(base=b, fault=f, subprocess=(b["id"] * 7 + FAULTS.index(f)) % (29 if tier == "quick" else 97) == 0))
    return cases


def base_files(b: dict[str, Any], wd: Path, fault: str | None):
    """World spec + run spec for a base, with file-level faults applied.  Simulation axis: step s <-> physical time start + sgn*s*dt."""
    dt, ns, rev = b["dt"], b["ns"], b["reversed"]
    sgn = -1 if rev else 1
    start = C.T0
    stop = str(tadd(start, sgn * ns * dt))
    fr = list(b["frames"])  # frame positions on the simulation axis (steps)
    files = list(b["files"])
    if fault in ("forcing_ends_inside_the_last_partial_step", "_partial_stop_valid"):
        # the duration is ns and a half steps; the valid twin keeps its frames (they reach beyond the stop time), the faulty one ends a quarter of a
        # step after the last whole step, i.e. before the stop time
        stop = str(tadd(start, sgn * (ns * dt + dt // 2)))
        if fault == "forcing_ends_inside_the_last_partial_step":
            fr = [f for f in fr if f < ns] + [ns + 0.25]
            files = [len(fr)]
    if fault in ("roms2_forcing_ends_early", "roms2_forcing_starts_late"):
        fr = [f for f in fr if (f < ns - 1 if fault.endswith("early") else f > 0)]
        files = [len(fr)]
    if fault == "forcing_ends_early":  # no frame at or after the end of the window (in simulation order)
        fr = [f for f in fr if f < ns - 1]
        files = [len(fr)]
    elif fault == "forcing_starts_late":
        fr = [f for f in fr if f > 0]
        files = [len(fr)]
    elif fault == "forcing_starts_late_substep":  # first frame a fraction of a step inside the window (off the time grid)
        fr = [1.0 / 3.0] + [f for f in fr if f > 0]
        files = [len(fr)]
    elif fault == "forcing_ends_early_substep":  # last frame a fraction of a step before the end of the window
        fr = [f for f in fr if f < ns - 1] + [ns - 1.0 / 3.0]
        files = [len(fr)]
    phys = sorted(sgn * f for f in fr)  # physical positions, increasing in time
    if rev:
        files = list(reversed(files))
    if fault == "frames_unsorted_in_file":
        files = [len(phys)]
        phys[1], phys[2] = phys[2], phys[1]
    elif fault == "frames_unsorted_across_files":
        k = len(phys) // 2
        phys = phys[k:] + phys[:k]
        files = [len(phys) - k, k]
    elif fault == "last_frame_duplicated":  # the very last frame of the forcing (in simulation order, beyond the end of the window) written twice
        phys = phys + [phys[-1]] if not rev else [phys[0]] + phys
        files = (files[:-1] + [files[-1] + 1]) if not rev else ([files[0] + 1] + files[1:])
    elif fault == "last_frame_steps_back":  # ... or followed by a frame that steps back in time (still beyond the end of the window)
        phys = phys + [phys[-1] - 0.25] if not rev else [phys[0] + 0.25] + phys
        files = (files[:-1] + [files[-1] + 1]) if not rev else ([files[0] + 1] + files[1:])
    elif fault == "frame_duplicated_across_files":
        k = len(phys) // 2
        phys = phys[:k] + [phys[k - 1]] + phys[k:]
        files = [k, len(phys) - k]
    w = dict(imax=16, jmax=12, N=2, t0=start, frames=[int(round(p * dt)) for p in phys], files=files, vel=dict(kind="const", u=0.05, v=0.02))
    if len(files) > 1 and b["id"] % 8 in (3, 6):
        # every forcing file with its own time unit and reference time (files of different model runs); the plain "seconds since 1970" file is the
        # last one in half of these bases and the first one in the other half
        tus = [["days since 2020-02-15 00:00:00", "hours since 2020-01-01 00:00:00", "seconds since 2020-02-01 00:00:00"][k % 3] for k in range(len(files))]
        tus[-1 if b["id"] % 8 == 3 else 0] = "seconds since 1970-01-01 00:00:00"
        w["time_units_per_file"] = tus
    steps = list(b["rel_steps"])
    if fault == "releases_all_before_start":
        steps = [-3, -1]
    elif fault == "releases_all_at_stop":
        steps = [ns]
    elif fault == "releases_all_after_stop":
        steps = [ns + 1, ns + 3]
    elif fault == "continuous_release_without_a_tick_in_the_window":  # one entry a step before the start, repeated less often than the run is long
        steps = [-1]
    elif fault == "releases_straddle_window":  # rows before the start and at/after the stop, none inside
        steps = [-2, -1, ns, ns + 2]
    elif fault == "releases_straddle_window_rows_not_in_time_order":  # the same, the file grouped by release site instead of by time
        steps = [-2, ns + 2, -1, ns + 1]
    cols = ["release_time", "X", "Y", "Z"]
    rows = [[str(tadd(start, sgn * s * dt)), 6.0 + 0.1 * k, 5.0, 1.0] for k, s in enumerate(steps)]
    if fault == "release_without_position":
        cols = ["release_time", "Z"]
        rows = [[r[0], r[3]] for r in rows]
    elif fault == "release_with_X_only":
        cols = ["release_time", "X", "Z"]
        rows = [[r[0], r[1], r[3]] for r in rows]
    elif fault == "plugin_grid_without_conversion_lonlat_release":  # positions given as lon/lat only, the grid plug-in has no way to convert them
        cols = ["release_time", "lon", "lat", "Z"]
    elif fault == "release_with_Y_only":
        cols = ["release_time", "Y", "Z"]
        rows = [[r[0], r[2], r[3]] for r in rows]
    rel = dict(columns=cols, rows=rows, header=True)
    if b["cont"]:
        rel.update(continuous=True, freq=b["freq"] * dt)
    if fault == "continuous_release_without_a_tick_in_the_window":
        rel.update(continuous=True, freq=(ns + 4) * dt)
    run = dict(start=start, stop=stop, dt=dt, reversed=rev, advection="EF", release=rel, output=dict(period=dt))
    if b["id"] % 2 and not (fault or "").startswith("subgrid"):
        run["subgrid"] = [2, -2, 1, -1]  # legal: negative limits count from the far edge
    return w, run, phys


def apply_conf_fault(conf: dict[str, Any], fault: str | None, b: dict[str, Any], wd: Path) -> None:
    if fault == "missing_start":
        conf["time"].pop("start")
    elif fault == "missing_stop":
        conf["time"].pop("stop")
    elif fault == "missing_dt":
        conf["time"].pop("dt")
    elif fault == "stop_on_wrong_side":
        conf["time"]["time_reversal"] = not b["reversed"]
    elif fault == "missing_grid_file":
        conf["grid"]["filename"] = str(wd / "no_such_grid.nc")
    elif fault == "missing_forcing_file":
        conf["forcing"]["filename"] = str(wd / "no_such_forcing_*.nc")
    elif fault == "missing_release_file":
        conf["release"]["release_file"] = str(wd / "no_such_release.rls")
    elif fault in ("plugin_grid_without_conversion_lonlat_release", "_plugin_grid_valid"):
        # a user's grid class derived from ladim's BaseGrid that implements what BaseGrid asks for (no lon/lat conversion), with an analytic forcing
        gfile = wd / "based_grid.py"
        gfile.write_text("from ladim.grid import BaseGrid\nfrom vmon.plugins.ana_grid import Grid as _G\n\n\nclass Grid(_G, BaseGrid):\n    pass\n")
        conf["grid"] = dict(module=str(gfile), filename="unused-by-this-plug-in", xmin=0.0, xmax=15.0, ymin=0.0, ymax=11.0, dx=1000.0)
        conf["forcing"] = dict(module=str(VERIF / "vmon" / "plugins" / "ana_forcing.py"), filename="unused-by-this-plug-in", flow=dict(kind="rotation", omega=1.0e-5, xc=8.0, yc=6.0), record=False)
    elif fault in ("roms2_forcing_ends_early", "roms2_forcing_starts_late", "_roms2_valid"):
        # the documented alternative grid/forcing module (adaptive subgrid) has its own coverage check
        conf["grid"]["module"] = "ladim.ROMS2"
        conf["forcing"]["module"] = "ladim.ROMS2"
        conf["grid"].pop("subgrid", None)
    elif fault and fault.startswith("missing_") and fault.endswith("_section"):
        conf.pop(fault[len("missing_"):-len("_section")])
    elif fault and fault.startswith("subgrid"):
        imax, jmax = 16, 12
        conf["grid"]["subgrid"] = dict(subgrid_i0_lt_1=[0, imax - 1, 1, jmax - 1], subgrid_i1_gt_max=[1, imax, 1, jmax - 1], subgrid_i0_ge_i1=[9, 5, 1, jmax - 1],
                                       subgrid_j0_lt_1=[1, imax - 1, 0, jmax - 1], subgrid_j1_gt_max=[1, imax - 1, 1, jmax], subgrid_j0_ge_j1=[1, imax - 1, 8, 3],
                                       subgrid_i0_eq_i1=[5, 5, 1, jmax - 1],
                                       # negative limits count from the far edge (documented); further back than the grid is wide is illegal
                                       subgrid_i0_far_negative=[-(imax + 12), -2, 1, jmax - 1], subgrid_j0_far_negative=[1, imax - 1, -(jmax + 9), -2],
                                       subgrid_negative_i1_le_i0=[5, -(imax - 4), 1, jmax - 1], subgrid_negative_j1_le_j0=[1, imax - 1, 6, -(jmax - 5)],
                                       subgrid_i1_minus_imax=[1, -imax, 1, jmax - 1])[fault]


def one_run(b: dict[str, Any], fault: str | None, wd: Path, sub: bool):
    """Returns (result, n_model_update, n_output_write, records_in_files, presence_verified, exit_status)."""
    from ladim.model import Model  # noqa: PLC0415
    from ladim.out_netcdf import Output  # noqa: PLC0415

    wd.mkdir(parents=True, exist_ok=True)
    wspec, run, phys = base_files(b, wd, fault)
    world = W.write_world(wd / "world", wspec)
    conf = build_config(run, wd, world)
    apply_conf_fault(conf, fault, b, wd)
    written = conf
    if fault == "warm_start_stop_not_after_restart_time":
        # restart from the output of the valid run (kept as warm_from.nc) with the original start left in the file and a stop time
        # that the restart time (the file's last record, step ns - 1) has already passed
        sg_ = -1 if b["reversed"] else 1
        conf["warm_start"] = dict(filename=str(wd / "warm_from.nc"), variables=[])
        conf["time"]["stop"] = str(tadd(run["start"], sg_ * max(0, min(2, b["ns"] - 3)) * b["dt"]))  # strictly before the restart time (step ns - 1)
        conf["output"]["filename"] = str(wd / "out_restart.nc")
    if fault and fault.startswith("v1_"):
        # the same set-up in the legacy (version 1) vocabulary
        rf = Path(conf["release"]["release_file"])
        lines = rf.read_text().splitlines()
        names = lines[0].split()
        rf.write_text("\n".join(lines[1:]) + "\n")  # v1 names the columns in the configuration
        gf = str(wd / "no_such_grid.nc") if fault == "v1_missing_grid_file" else str(conf["grid"]["filename"])
        ff = str(wd / "no_such_forcing_*.nc") if fault == "v1_missing_forcing_file" else str(conf["forcing"]["filename"])
        written = dict(time_control=dict(start_time=conf["time"]["start"], stop_time=conf["time"]["stop"]),
                       files=dict(particle_release_file=str(rf), output_file=str(conf["output"]["filename"])),
                       gridforce=dict(module="ladim1.gridforce.ROMS", input_file=ff, gridfile=gf) if b["id"] % 2 else dict(module="ladim1.gridforce.ROMS"),
                       numerics=dict(dt=b["dt"], advection="EF", diffusion=0.0),
                       particle_release=dict(variables=names, release_time="time", particle_variables=[]),
                       output_variables=dict(outper=[b["dt"], "s"], format="NETCDF4", instance=["pid", "X", "Y", "Z"], particle=[],
                                             pid=dict(ncformat="i4", long_name="pid"), X=dict(ncformat="f8", long_name="X"), Y=dict(ncformat="f8", long_name="Y"), Z=dict(ncformat="f8", long_name="Z")))
        if not b["id"] % 2:  # legacy layout: file names in the `files` section
            written["files"].update(input_file=ff, gridfile=gf)
        if b["cont"]:
            written["particle_release"].update(release_type="continuous", release_frequency=[b["freq"] * b["dt"], "s"])
        if "subgrid" in conf.get("grid", {}):
            written["gridforce"]["subgrid"] = conf["grid"]["subgrid"]
    v1_valid_runs = True
    if fault and fault.startswith("v1_"):
        # the legacy rendering itself must be a valid set-up: the same file with the existing files named has to run
        import copy as _copy  # noqa: PLC0415

        okc = _copy.deepcopy(written)
        sec = okc["gridforce"] if "input_file" in okc["gridforce"] else okc["files"]
        sec["input_file"], sec["gridfile"] = str(conf["forcing"]["filename"]), str(conf["grid"]["filename"])
        okc["files"]["output_file"] = str(wd / "out_v1_ok.nc")
        with open(wd / "ladim_v1_ok.yaml", "w", encoding="utf-8") as f:
            yaml.safe_dump(okc, f, sort_keys=False)
        r_ok = run_ladim(wd / "ladim_v1_ok.yaml", cwd=wd)
        v1_valid_runs = bool(r_ok.ok and (wd / "out_v1_ok.nc").exists())
    cf = wd / "ladim.yaml"
    with open(cf, "w", encoding="utf-8") as f:
        yaml.safe_dump(written, f, sort_keys=False)
    if fault == "missing_config_file":
        cf = wd / "no_such_config.yaml"
    # --- verify the fault is really in what ladim will read
    present = v1_valid_runs
    if fault in ("last_frame_duplicated", "last_frame_steps_back", "frames_unsorted_in_file", "frames_unsorted_across_files", "frame_duplicated_across_files", "forcing_ends_early", "forcing_starts_late",
                 "forcing_starts_late_substep", "forcing_ends_early_substep", "forcing_ends_inside_the_last_partial_step", "roms2_forcing_ends_early", "roms2_forcing_starts_late"):
        ts = []
        for fn in world["files"]:
            with Dataset(fn) as nc:
                tu_ = nc.variables["ocean_time"].units  # converted to seconds since 1970 with the file's own unit and reference time
                div_ = {"seconds": 1.0, "hours": 3600.0, "days": 86400.0}[tu_.split()[0]]
                ref_ = (np.datetime64(tu_.split("since")[1].strip().replace(" ", "T"), "s") - np.datetime64("1970-01-01T00:00:00", "s")) / np.timedelta64(1, "s")
                ts += [float(np.round(float(x) * div_ + ref_, 3)) for x in nc.variables["ocean_time"][:]]
        if fault == "last_frame_duplicated":
            present = ts[-1] == ts[-2] if not b["reversed"] else ts[0] == ts[1]
        elif fault == "last_frame_steps_back":
            present = ts[-1] < ts[-2] if not b["reversed"] else ts[0] > ts[1]
        elif fault.startswith("frames_unsorted"):
            present = any(b2 < a for a, b2 in zip(ts, ts[1:]))
        elif fault == "frame_duplicated_across_files":
            present = any(b2 == a for a, b2 in zip(ts, ts[1:]))
        elif fault.endswith("_substep") or fault == "forcing_ends_inside_the_last_partial_step":
            # the window [min, max] of the run in seconds since 1970; the forcing must miss one end by less than one step
            import numpy as _np  # noqa: PLC0415

            t_a = (_np.datetime64(run["start"], "s") - _np.datetime64("1970-01-01T00:00:00", "s")) / _np.timedelta64(1, "s")
            t_b = (_np.datetime64(run["stop"], "s") - _np.datetime64("1970-01-01T00:00:00", "s")) / _np.timedelta64(1, "s")
            lo, hi = min(t_a, t_b), max(t_a, t_b)
            present = (0 < min(ts) - lo < b["dt"]) or (0 < hi - max(ts) < b["dt"])
    with Hooks() as hk:
        hk.wrap(Model, "update", None, None)
        hk.wrap(Output, "write", None, None)
        res = run_ladim(cf, cwd=wd)
        nupd, nwrite = hk.counts["Model.update"], hk.counts["Output.write"]
    nrec = 0
    for p in output_files(conf) if "output" in conf else []:
        try:
            with Dataset(p) as nc:
                nrec += len(nc.dimensions["time"])
        except OSError:
            pass
    status = None
    if sub:
        cp = subprocess.run([sys.executable, "-m", "ladim", "-s", str(cf)], cwd=str(wd), capture_output=True, text=True, timeout=300,
                            env=dict(__import__("os").environ, PYTHONPATH=str(REPO)), check=False)
        status = cp.returncode
    return res, nupd, nwrite, nrec, present, status


def run_case(case: dict[str, Any], wd: Path) -> dict[str, Any]:
    b, fault = case["base"], case["fault"]
    V: list = []
    sit: dict[str, int] = {}
    cnt: dict[str, int] = {}
    desc = dict(base={k: b[k] for k in ("id", "reversed", "multi", "cont", "ns", "frames", "files", "rel_steps")}, fault=fault)
    key = f"{b['id']}|{fault}"
    # the faulty set-up is written over the valid one: same directory, same file names, same process (what a user who edits
    # or replaces files between two runs does)
    shared = (b["id"] + FAULTS.index(fault)) % 2 == 0
    basefault = "_partial_stop_valid" if fault == "forcing_ends_inside_the_last_partial_step" else ("_roms2_valid" if fault.startswith("roms2_") else ("_plugin_grid_valid" if fault.startswith("plugin_grid_") else None))  # the valid twin has the same (off-grid) stop time
    res0, nupd0, nwrite0, nrec0, _p, _s = one_run(copy.deepcopy(b), basefault, wd / ("run" if shared else "base"), False)
    if shared:
        import shutil  # noqa: PLC0415

        shutil.rmtree(wd / "run" / "world", ignore_errors=True)
        for f_ in (wd / "run").glob("out*.nc"):
            if fault == "warm_start_stop_not_after_restart_time" and f_.name == "out.nc" and res0.ok:
                f_.rename(wd / "run" / "warm_from.nc")
                continue
            f_.unlink()
    elif fault == "warm_start_stop_not_after_restart_time":
        import shutil  # noqa: PLC0415

        (wd / "fault").mkdir(parents=True, exist_ok=True)
        if (wd / "base" / "out.nc").exists():
            shutil.copy(wd / "base" / "out.nc", wd / "fault" / "warm_from.nc")
    if not res0.ok or nupd0 != b["ns"] or nrec0 == 0:
        return C.result([], sit, cnt, nontrivial=False, key=key, sample=desc, void=True, note=f"fault-free base did not run: {res0.exc}")
    sit["base_reversed" if b["reversed"] else "base_forward"] = 1
    sit["base_multifile"] = int(b["multi"])
    sit["base_continuous"] = int(b["cont"])
    sit["forcing_files_with_different_time_units"] = int(b["multi"] and b["id"] % 8 in (3, 6))
    sit["base_with_legal_negative_subgrid"] = int(b["id"] % 2 == 1 and not fault.startswith("subgrid"))
    sit["subgrid_fault_with_negative_limits"] = int("negative" in fault or "minus" in fault)
    res, nupd, nwrite, nrec, present, status = one_run(copy.deepcopy(b), fault, wd / ("run" if shared else "fault"), case["subprocess"])
    sit["fault_written_over_a_valid_setup"] = int(shared)
    sit["fault_in_a_version_1_configuration"] = int(fault.startswith("v1_") and present)
    sit["fault_in_a_warm_started_setup"] = int(fault.startswith("warm_"))
    if fault.startswith("plugin_grid_"):
        sit["lonlat_release_with_a_grid_plugin_that_cannot_convert"] = 1
    if fault.startswith("roms2_"):
        sit["coverage_fault_with_the_ROMS2_modules"] = int(bool(present))
    if fault == "releases_straddle_window_rows_not_in_time_order":
        sit["release_rows_outside_the_window_not_in_time_order"] = 1
    if fault == "forcing_ends_inside_the_last_partial_step":
        sit["forcing_ends_inside_the_last_partial_step_" + ("reversed" if b["reversed"] else "forward")] = int(bool(present))
    cnt["fault_runs"] = 1
    if not present:
        return C.result([], sit, cnt, nontrivial=False, key=key, sample=desc, void=True, note="fault not present in the generated files")
    sit["fault_presence_verified"] = 1
    if res.ok:
        V.append(C.viol(f"set-up with fault '{fault}' was not refused: the run completed ({nupd} steps, {nwrite} Output.write calls, {nrec} records written)", **desc))
    else:
        if nupd > 0 or nwrite > 0 or nrec > 0:
            V.append(C.viol(f"set-up with fault '{fault}' stopped with {res.exc} only after the simulation had started: {nupd} model steps, {nwrite} Output.write calls, {nrec} records in the output", **desc))
        elif res.status == "exit" and res.code in (0, None):
            V.append(C.viol(f"set-up with fault '{fault}' stopped with SystemExit({res.code}): exit status 0 does not signal an error", **desc))
        else:
            sit["refused_before_first_step"] = 1
            sit["refused_by_" + ("SystemExit" if res.status == "exit" else "exception")] = 1
    if status is not None:
        sit["subprocess_exit_status_checked"] = 1
        if status == 0:
            V.append(C.viol(f"`python -m ladim` on the set-up with fault '{fault}' exited with status 0", **desc))
    sample = dict(desc, outcome=res.exc, model_steps=nupd, output_writes=nwrite, records=nrec, subprocess_status=status)
    return C.result(V, sit, cnt, nontrivial=True, key=key, sample=sample)
