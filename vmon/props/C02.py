"""C02 Particles feel the interpolated C-grid forcing at their own position.

Monitor: a real ROMS.Grid + ROMS.Forcing are built on generated files whose node values are i.i.d. random
(unambiguous: a stagger/offset error cannot cancel); forcing.velocity / forcing.variables are compared with an
independent float64 interpolation computed from the arrays read straight from the files with global indices.
Oracle-free monitors: convexity, exactness on linear fields, and the subgrid pair monitor (same global position
under every legal subgrid)."""

from __future__ import annotations

from pathlib import Path
from typing import Any

import numpy as np
from netCDF4 import Dataset

from vmon import common as C
from vmon import world as W
from vmon.scenario import tadd

LEVEL = "exploration"
TECHNIQUE = "runtime monitoring: reference-model monitor on Forcing.velocity / Forcing.variables (independent C-grid interpolation from the files), convexity and linear-exactness monitors, metamorphic subgrid pair monitor"
LEVEL_TEXT = ("Random worlds (grids 8-40 cells, N 2-30, random bathymetry/stretching/Vtransform, random land masks, i.i.d. node values, float32 or int16-packed storage) and 2000 positions each "
              "(interior, cell edges/corners/u-/v-points, +-1e-9 of them, rim of the valid region; depths above the surface, below the bottom, exactly on levels) are evaluated by the real "
              "Grid/Forcing and compared with an independent interpolation; every world is evaluated under three subgrids.")
LEVEL_NOTE = ("Tolerance 1e-6 relative to the largest contributing node (float32 storage), 1e-11 for float64 linear fields and the subgrid pairs (weights differ by rounding of X - i0, so the pair "
              "monitor is not bit-for-bit). Cell-edge ties (X or Y = k + 1/2) admit either neighbouring cell as 'own cell'.")
RULE = ("case = one world x 3 subgrids x 2000 positions (kinds: random nodes, per-level linear, linear in x,y,z over a flat bottom). Non-trivial: land faces contribute, positions "
        "on edges/rim and depths outside the level range are present; distinct by world parameters.")
MANDATORY = ["all_particles_shallower_than_the_deepest_uppermost_level", "neighbours_in_the_arrays_one_row_and_1000_columns_apart", "e2e_displacement_of_a_particle_stored_behind_one_that_died", "vertical_grid_from_Vinfo_Vstretching_2", "vertical_grid_from_Vinfo_file_without_Vtransform", "time_reversed_clock", "subgrid_with_negative_limits", "positions_compared", "land_face_contributes", "depth_above_top_level", "depth_below_bottom_level", "depth_on_level", "edge_tie_positions", "rim_positions",
             "packed_storage", "packed_with_different_scale_factors", "subgrid_pairs_compared", "scalar_values_compared", "linear_levels_exact", "linear3d_exact", "convexity_checked", "vtransform2", "e2e_displacements_checked", "e2e_scalar_values_checked", "consecutive_update_values_compared", "second_file_with_other_packing", "later_frame_nonzero_on_land_faces_first_frame_zero", "grid_file_with_mask_u_and_mask_v"]
ASSUMPTIONS = ["add_offset of packed u/v is zero (the code documents that it ignores it)", "positions inside the valid region of every subgrid used"]
TIMEOUT = {"quick": 900, "thorough": 3400}


def gen_cases(tier: str, seed: int) -> list[dict[str, Any]]:
    n = 48 if tier == "quick" else 12000
    cases = []
    for i in range(n):
        kind = ["random", "random", "random", "linear_levels", "linear3d", "random"][i % 6]
        cases.append(dict(seed=seed, idx=i, kind=kind, npos=2000))
    cases += [dict(seed=seed, idx=i, kind="e2e") for i in range(24 if tier == "quick" else 3000)]
    return cases


def _bump(sit, k, v=1):
    sit[k] = sit.get(k, 0) + int(v)


def read_frame0(files, names, which=0):
    """Raw arrays of the first frame (of file `which`) with scaling applied in float64 (independent of ladim)."""
    out = {}
    with Dataset(files[which]) as nc:
        nc.set_auto_maskandscale(False)
        for n in names:
            v = nc.variables[n]
            a = np.array(v[0], dtype=np.float64)
            if "scale_factor" in v.ncattrs():
                a = float(np.float32(v.scale_factor)) * a + (float(np.float32(v.add_offset)) if n not in ("u", "v") else 0.0)
            out[n] = a
    return out


def level_pair(zcol: np.ndarray, Z: float):
    """(k0, k1, w0, candidates) with value = w0*F[k0] + (1-w0)*F[k1]; candidates = admissible levels for the scalar."""
    N = len(zcol)
    z = -Z
    if z <= zcol[0]:
        return 0, 0, 1.0, {0, 1} if N > 1 else {0}
    if z >= zcol[-1]:
        return N - 1, N - 1, 1.0, {N - 1, N - 2} if N > 1 else {0}
    k = int(np.searchsorted(zcol, z))  # zcol[k-1] < z <= zcol[k]
    w0 = (zcol[k] - z) / (zcol[k] - zcol[k - 1])
    cand = {k - 1, k}
    if z == zcol[k] and k + 1 < N:
        cand.add(k + 1)
    return k - 1, k, float(w0), cand


def ref_velocity(raw, M, ZR, x: float, y: float, z: float):
    """Independent interpolation at a non-tie position: (u, v, admissible scalar levels of the own cell)."""
    u, v = raw["u"], raw["v"]
    MU = M[:, :-1] * M[:, 1:]
    MV = M[:-1, :] * M[1:, :]
    jc, ic = int(round(y)), int(round(x))
    k0, k1, w0, cand = level_pair(ZR[:, jc, ic], z)
    iu = int(np.floor(x - 0.5))
    pu = x - 0.5 - iu
    ju = int(np.floor(y))
    qu = y - ju
    iv = int(np.floor(x))
    pv = x - iv
    jv = int(np.floor(y - 0.5))
    qv = y - 0.5 - jv
    eu = ev = 0.0
    for wgt, j, i in (((1 - pu) * (1 - qu), ju, iu), (pu * (1 - qu), ju, iu + 1), ((1 - pu) * qu, ju + 1, iu), (pu * qu, ju + 1, iu + 1)):
        if wgt:
            eu += wgt * MU[j, i] * (w0 * u[k0, j, i] + (1 - w0) * u[k1, j, i])
    for wgt, j, i in (((1 - pv) * (1 - qv), jv, iv), (pv * (1 - qv), jv, iv + 1), ((1 - pv) * qv, jv + 1, iv), (pv * qv, jv + 1, iv + 1)):
        if wgt:
            ev += wgt * MV[j, i] * (w0 * v[k0, j, i] + (1 - w0) * v[k1, j, i])
    return eu, ev, (jc, ic, cand)


def run_e2e(case: dict[str, Any], wd: Path) -> dict[str, Any]:
    """End to end: one-step Euler-forward displacement and the scalar instance variable in the output file."""
    from vmon.scenario import all_records, read_outputs, run_scenario  # noqa: PLC0415

    rng = C.rng_for(case["seed"], 22, case["idx"])
    imax, jmax, N = int(rng.integers(10, 30)), int(rng.integers(10, 24)), int(rng.integers(2, 12))
    Vt = int(rng.choice([1, 2]))
    if case["idx"] % 5 == 2:
        Vt = 2  # these cases take the vertical set-up from Vinfo, the file saying nothing about the transform
    dx, dy = float(rng.choice([400.0, 1000.0])), float(rng.choice([400.0, 1500.0]))
    dt = 300
    sub = [2, imax - 2, 3, jmax - 2] if rng.random() < 0.5 else None
    spec = dict(imax=imax, jmax=jmax, N=N, t0=C.T0, frames=[0, 1800], files=[1, 1], vel=dict(kind="random", seed=case["idx"], scale=0.4 * min(dx, dy) / dt), store="f8",
                h=dict(kind="random", hmin=10.0, hmax=300.0, seed=case["idx"]), mask=dict(kind="random", p=0.12, seed=case["idx"]),
                vert=dict(Vtransform=Vt, Vstretching=int(rng.choice([1, 4])), theta_s=float(rng.uniform(1, 6)), theta_b=float(rng.uniform(0.1, 0.9)),
                          hc=float(rng.uniform(0, 10.0)) if Vt == 1 else 20.0),
                scalars=dict(temp=dict(kind="random", seed=case["idx"], lo=0.0, hi=20.0)), scalar_store="f8", metric=dict(kind="uniform", dx=dx, dy=dy))
    M = W.make_mask(spec["mask"], jmax, imax)
    H = W.make_h(spec["h"], jmax, imax)
    i0, i1, j0, j1 = sub or [1, imax - 1, 1, jmax - 1]
    rows = []
    while len(rows) < 40:
        x, y = float(rng.uniform(i0 + 1.6, i1 - 2.6)), float(rng.uniform(j0 + 1.6, j1 - 2.6))
        if abs(x - np.floor(x) - 0.5) < 1e-3 or abs(y - np.floor(y) - 0.5) < 1e-3 or M[int(round(y)), int(round(x))] < 1:
            continue
        h = H[int(round(y)), int(round(x))]
        rows.append([C.T0, x, y, float(rng.uniform(-0.05, 1.1) * h) if rng.random() < 0.8 else 0.0])
    # particles stored early in the state die in the first step: the survivors' level data must still be their own in the next one
    victims = sorted(int(v) for v in rng.choice(12, size=3, replace=False))
    run = dict(start=C.T0, stop=str(tadd(C.T0, 3 * dt)), dt=dt, advection="EF", subgrid=sub, extra_forcing=["temp"],
               ibm=dict(module="vmon.plugins.rec_ibm", kill={0: victims}, log=False),
               release=dict(columns=["release_time", "X", "Y", "Z"], rows=rows, header=True),
               state=dict(instance_variables=dict(temp="float"), default_values=dict(temp=0.0)),
               output=dict(period=dt, instance=dict(pid="i4", X="f8", Y="f8", Z="f8", temp="f8")))
    res, conf, world = run_scenario(dict(world=spec, run=run), wd)
    V: list = []
    sit: dict[str, int] = {}
    cnt: dict[str, int] = {}
    desc = dict(kind="e2e", grid=[imax, jmax, N], subgrid=sub, dx=dx, dy=dy, idx=case["idx"])
    if not res.ok:
        V.append(C.viol(f"end-to-end run did not complete: {res.exc}", tb=res.tb[-1200:], **desc))
        return C.result(V, sit, cnt, nontrivial=True, key=f"e2e|{case['idx']}", sample=desc)
    raw = read_frame0(world["files"], ["u", "v", "temp"])
    ZR = world["G"]["zr"]
    recs = all_records(read_outputs(res.outputs))
    raw1 = read_frame0(world["files"], ["u", "v"], which=1)
    nfr = 1800 // dt
    for n in (0, 1):
        ra, rb = recs[n], recs[n + 1]
        rawn = dict(raw)
        if n:  # velocity advances linearly towards the next frame, the scalar keeps the latest frame's values
            rawn["u"] = raw["u"] + (n / nfr) * (raw1["u"] - raw["u"])
            rawn["v"] = raw["v"] + (n / nfr) * (raw1["v"] - raw["v"])
            if any(v in ra.pid for v in victims):
                V.append(C.viol(f"record {n} holds a particle the IBM removed in the step before ({victims}): pids {ra.pid.tolist()}", **desc))
                break
        posb = {int(p): k for k, p in enumerate(rb.pid)}
        for k, p in enumerate(ra.pid):
            x, y, z = float(ra.vars["X"][k]), float(ra.vars["Y"][k]), float(ra.vars["Z"][k])
            if abs(x - np.floor(x) - 0.5) < 1e-6 or abs(y - np.floor(y) - 0.5) < 1e-6:
                continue
            if not ((i0 + 0.5 < x < i1 - 1.5) and (j0 + 0.5 < y < j1 - 1.5)) or M[int(round(y)), int(round(x))] < 1:
                continue
            eu, ev, (jc, ic, cand) = ref_velocity(rawn, M, ZR, x, y, z)
            vals = [float(raw["temp"][kk, jc, ic]) for kk in cand]
            sit["e2e_scalar_values_checked"] = sit.get("e2e_scalar_values_checked", 0) + 1
            if not any(abs(float(ra.vars["temp"][k]) - t) <= 1e-9 for t in vals):
                V.append(C.viol(f"record {n}: scalar instance variable temp of pid {p} at ({x:.4f},{y:.4f},Z={z:.3f}) = {float(ra.vars['temp'][k])}; the particle's own cell ({jc},{ic}) holds {vals} at the bracketing levels", **desc))
                break
            tx, ty = x + eu * dt / dx, y + ev * dt / dy
            if int(p) not in posb:
                continue
            inside = (i0 + 0.5 < tx < i1 - 1.5) and (j0 + 0.5 < ty < j1 - 1.5)
            k1 = posb[int(p)]
            x1, y1 = float(rb.vars["X"][k1]), float(rb.vars["Y"][k1])
            if inside and M[int(round(ty)), int(round(tx))] > 0:
                sit["e2e_displacements_checked"] = sit.get("e2e_displacements_checked", 0) + 1
                if n and int(p) > victims[0]:
                    sit["e2e_displacement_of_a_particle_stored_behind_one_that_died"] = sit.get("e2e_displacement_of_a_particle_stored_behind_one_that_died", 0) + 1
                if not (abs(x1 - tx) <= 1e-9) or not (abs(y1 - ty) <= 1e-9):
                    V.append(C.viol(f"Euler-forward step {n} moved pid {p} from ({x:.6f},{y:.6f},Z={z:.3f}) to ({x1:.8f},{y1:.8f}); the file's u, v interpolated at the particle's own position give "
                                    f"({tx:.8f},{ty:.8f}) (pids {victims} were removed in the first step)", **desc))
                    break
        if V:
            break
    return C.result(V[:2], sit, cnt, nontrivial=sit.get("e2e_displacements_checked", 0) > 0, key=f"e2e|{case['idx']}", sample=dict(desc, particles=len(recs[0].pid)))


def run_case(case: dict[str, Any], wd: Path) -> dict[str, Any]:
    if case["kind"] == "e2e":
        return run_e2e(case, wd)
    from ladim.ROMS import Forcing, Grid  # noqa: PLC0415
    from ladim.state import State  # noqa: PLC0415
    from ladim.timekeeper import TimeKeeper  # noqa: PLC0415

    rng = C.rng_for(case["seed"], 2, case["idx"])
    kind = case["kind"]
    imax, jmax = int(rng.integers(8, 41)), int(rng.integers(8, 33))
    N = int(rng.integers(2, 31))
    wide = bool(kind != "linear3d" and case["idx"] % 12 == 7)
    if wide:
        # a grid more than 1000 cells wide, with neighbours in the particle arrays that sit one row and exactly 1000 columns apart (below)
        imax, jmax, N = int(rng.integers(1030, 1101)), int(rng.integers(8, 11)), min(N, 6)
    Vt = int(rng.choice([1, 2]))
    if case["idx"] % 5 == 2:
        Vt = 2  # these cases take the vertical set-up from Vinfo, the file saying nothing about the transform
    flat = kind == "linear3d"
    hmin = 8.0
    hspec = dict(kind="flat", h=float(rng.uniform(20, 300))) if flat else dict(kind="random", hmin=hmin, hmax=float(rng.choice([60.0, 400.0, 3000.0])), seed=case["idx"])
    vert = dict(Vtransform=Vt, Vstretching=int(rng.choice([1, 4])), theta_s=float(rng.uniform(0.5, 7)), theta_b=float(rng.uniform(0.05, 1.0)),
                hc=float(rng.uniform(0, hmin)) if Vt == 1 else float(rng.choice([5.0, 20.0, 200.0])))
    if case["idx"] % 5 == 2:
        vert["Vstretching"] = [2, 1, 4][(case["idx"] // 5) % 3]  # the Vinfo cases go through ladim's own stretching curves: all three kinds
    packed = kind == "random" and rng.random() < 0.35
    if kind == "random":
        vel = dict(kind="random", seed=case["idx"], scale=1.0, steady=True)
        mask = dict(kind="random", p=float(rng.choice([0.0, 0.1, 0.2, 0.3])), seed=case["idx"])
        store = "f4"
    elif kind == "linear_levels":
        coef = [[float(x) for x in rng.uniform(-1, 1, size=6)] for _ in range(N)]
        vel = dict(kind="linear_levels", coef=coef)
        mask = dict(kind="sea")
        store = "f8"
    else:
        c = rng.uniform(-1, 1, size=8)
        vel = dict(kind="linear3d", u0=float(c[0]), ux=float(c[1]) / 10, uy=float(c[2]) / 10, uz=float(c[3]) / 50,
                   v0=float(c[4]), vx=float(c[5]) / 10, vy=float(c[6]) / 10, vz=float(c[7]) / 50)
        mask = dict(kind="sea")
        store = "f8"
    two_files = bool(packed)
    spec = dict(imax=imax, jmax=jmax, N=N, t0=C.T0, frames=[0, 600] if two_files else [0, 3600], files=[1, 1] if two_files else [2], vel=vel, h=hspec, mask=mask, vert=vert, store=store,
                scalars=dict(temp=dict(kind="random", seed=case["idx"], lo=-2.0, hi=25.0, steady=True), salt=dict(kind="random", seed=case["idx"] + 1, lo=0.0, hi=35.0, steady=True)),
                metric=dict(kind="uniform", dx=800.0, dy=800.0))
    if packed:
        spec["pack"] = dict(u=1.0e-4, v=float(rng.choice([1.0e-4, 4.0e-5, 2.5e-4])), temp=(0.001, 10.0), salt=(0.001, 17.0))
        sit_pack_differs = spec["pack"]["u"] != spec["pack"]["v"]
        # the second file is packed with other parameters than the first
        spec["pack_per_file"] = [dict(spec["pack"]), dict(u=2.0e-4, v=5.0e-5, temp=(0.002, 5.0), salt=(0.002, 17.0))]
    if kind == "random" and case["idx"] % 3 != 1:
        spec["staggered_masks"] = True  # the grid file also carries mask_u / mask_v, as files written by ROMS do
    use_vinfo = bool(case["idx"] % 5 == 2)
    if use_vinfo:
        # the vertical set-up comes from the Vinfo option; the file itself carries no Vtransform variable (it would say "1" by default)
        spec["vert"] = dict(vert, write_Vtransform=False)
    rev_run = bool(case["idx"] % 4 == 1 and not packed)  # time-reversed clock: the velocity changes sign, scalar forcing does not
    land_zero_first = bool(kind == "random" and mask.get("p", 0.0) > 0 and case["idx"] % 2 == 0)
    if land_zero_first:
        spec["land_zero_frames"] = [0]  # first frame as the ocean model writes it (zero on land faces), the next one filled with values there
    w = W.write_world(wd / "w", spec)
    raw = read_frame0(w["files"], ["u", "v", "temp", "salt"])
    with Dataset(w["gridfile"]) as nc:
        H = np.array(nc.variables["h"][:], float)
        M = np.array(nc.variables["mask_rho"][:], float)
        hc = float(nc.variables["hc"].getValue())
        Cs_r = np.array(nc.variables["Cs_r"][:], float)
        Vtf = int(nc.variables["Vtransform"].getValue()) if "Vtransform" in nc.variables else Vt
    S_r = (np.arange(N) + 0.5) / N - 1.0
    ZR = W.level_depths(H, hc, S_r, Cs_r, Vtf)  # (N, jmax, imax), own implementation

    # --- subgrids
    subs: list[Any] = [None]
    if wide:
        subs.append([3, imax - 2, 1, jmax - 2])  # still more than 1000 cells wide
    for _ in range(0 if wide else 2):
        i0 = int(rng.integers(1, max(2, imax // 3)))
        i1 = int(rng.integers(max(i0 + 5, 2 * imax // 3), imax))
        j0 = int(rng.integers(1, max(2, jmax // 3)))
        j1 = int(rng.integers(max(j0 + 5, 2 * jmax // 3), jmax))
        if i1 - i0 >= 5 and j1 - j0 >= 5:
            subs.append([i0, min(i1, imax - 1), j0, min(j1, jmax - 1)])
    lims = [s or [1, imax - 1, 1, jmax - 1] for s in subs]
    xlo = max(l[0] for l in lims) + 0.5
    xhi = min(l[1] for l in lims) - 1.5
    ylo = max(l[2] for l in lims) + 0.5
    yhi = min(l[3] for l in lims) - 1.5
    if xhi - xlo < 1 or yhi - ylo < 1:
        subs = [None]
        xlo, xhi, ylo, yhi = 1.5, imax - 2.5, 1.5, jmax - 2.5
    n = case["npos"]
    X = rng.uniform(xlo, xhi, size=n)
    Y = rng.uniform(ylo, yhi, size=n)
    eps = 1e-9
    q = n // 10
    ii = rng.integers(int(np.ceil(xlo)), int(np.floor(xhi)) + 1, size=n).astype(float)
    jj = rng.integers(int(np.ceil(ylo)), int(np.floor(yhi)) + 1, size=n).astype(float)
    X[:q] = ii[:q]  # rho points / u-point rows
    Y[q:2 * q] = jj[q:2 * q]
    X[2 * q:3 * q] = np.clip(ii[2 * q:3 * q] + 0.5, xlo, xhi)  # cell edges = u-points in x (ties)
    Y[3 * q:4 * q] = np.clip(jj[3 * q:4 * q] + 0.5, ylo, yhi)
    X[4 * q:5 * q] = np.clip(ii[4 * q:5 * q] + 0.5 + rng.choice([-eps, eps], size=q), xlo, xhi)
    Y[5 * q:6 * q] = np.clip(jj[5 * q:6 * q] + 0.5 + rng.choice([-eps, eps], size=q), ylo, yhi)
    X[6 * q:6 * q + 20] = xlo + 1e-7  # rim
    X[6 * q + 20:6 * q + 40] = xhi - 1e-7
    Y[6 * q + 40:6 * q + 60] = ylo + 1e-7
    Y[6 * q + 60:6 * q + 80] = yhi - 1e-7
    X[6 * q + 80:6 * q + 90] = ii[:10]
    Y[6 * q + 80:6 * q + 90] = jj[:10]  # corners of u/v cells = rho points
    npairs = 0
    if wide:
        for k_ in range(0, n - 1, 2):
            if X[k_] - 1000.0 >= xlo and Y[k_] + 1.0 <= yhi:
                X[k_ + 1], Y[k_ + 1] = X[k_] - 1000.0, Y[k_] + 1.0
                npairs += 1
    Ic, Jc = np.round(X).astype(int), np.round(Y).astype(int)
    hcol = H[Jc, Ic]
    Z = rng.uniform(0, 1, size=n) * hcol
    Z[::7] = -rng.uniform(0, 3, size=len(Z[::7]))  # above the surface
    Z[3::7] = hcol[3::7] * rng.uniform(1.0, 1.3, size=len(Z[3::7]))  # below the bottom
    all_shallow = bool(kind == "random" and case["idx"] % 6 == 5)
    if all_shallow:
        # a surface-drift cloud: every particle shallower than the deepest uppermost level of the area, many of them below the uppermost level of their own column
        zt_ = min(float((-ZR[-1])[l_[2]:l_[3], l_[0]:l_[1]].max()) for l_ in lims)  # in every loaded (sub)grid of this case
        Z = rng.uniform(0.0, 0.95 * zt_, size=n)
    Z[1::11] = 0.0
    on = np.arange(5, n, 13)
    kk = rng.integers(0, N, size=len(on))
    if all_shallow:
        kk[:] = N - 1
    Z[on] = -ZR[kk, Jc[on], Ic[on]]  # exactly on a level
    if all_shallow:
        Z[on] = np.minimum(Z[on], 0.95 * zt_)
    tieX = np.abs(X - np.floor(X) - 0.5) < 1e-12
    tieY = np.abs(Y - np.floor(Y) - 0.5) < 1e-12

    if len(subs) > 1:
        # the same rectangle once more, its upper limits counted from the far edge (negative limits, as documented)
        s1 = subs[1]
        subs.append([s1[0] - imax if case["idx"] % 2 else s1[0], s1[1] - imax, s1[2] - jmax if case["idx"] % 2 else s1[2], s1[3] - jmax])
    V: list = []
    sit: dict[str, int] = {}
    cnt: dict[str, int] = {}
    desc = dict(grid=[imax, jmax, N], kind=kind, packed=bool(packed), vert=vert, subgrids=subs)
    results = []
    for sub in subs:
        try:
            timer = TimeKeeper(start=C.T0, stop=str(tadd(C.T0, 600 if two_files else 1800)), dt=600)
            if rev_run:
                timer = TimeKeeper(start=str(tadd(C.T0, 1800)), stop=C.T0, dt=600, time_reversal=True)
            state = State(instance_variables=dict(temp=float, salt=float), default_values=dict(temp=0.0, salt=0.0))
            modules: dict[str, Any] = dict(time=timer, state=state)
            gkw = dict(Vinfo=dict(N=N, hc=vert["hc"], theta_s=vert["theta_s"], theta_b=vert["theta_b"], Vstretching=vert["Vstretching"], Vtransform=Vt)) if use_vinfo else {}
            grid = Grid(filename=str(w["gridfile"]), subgrid=sub, **gkw)
            modules["grid"] = grid
            forcing = Forcing(modules, filename=w["pattern"] if two_files else str(w["files"][0]), extra_forcing=["temp", "salt"])
            modules["forcing"] = forcing
            state.append(X=X, Y=Y, Z=Z)
            timer.update()
            forcing.update()
            U, Vv = forcing.velocity(X, Y, Z)
            sc = {k: np.array(forcing.variables[k], float) for k in ("temp", "salt")}
            fu, fv = np.array(forcing.variables["u"], float), np.array(forcing.variables["v"], float)
            if sub is None and kind == "random":
                # same Forcing, next model step, same particle count: every particle now has another particle's depth and position
                # (fields are steady in these worlds, so the reference stays the first frame)
                perm = np.roll(np.arange(n), 7)
                state["X"], state["Y"], state["Z"] = X[perm], Y[perm], Z[perm]
                timer.update()
                forcing.update()
                U2, V2 = forcing.velocity(X[perm], Y[perm], Z[perm])
                inv = np.argsort(perm)
                second = (np.array(U2, float)[inv], np.array(V2, float)[inv], {k: np.array(forcing.variables[k], float)[inv] for k in ("temp", "salt")})
            forcing.close()
        except (Exception, SystemExit) as e:  # noqa: BLE001
            import traceback  # noqa: PLC0415

            V.append(C.viol(f"Grid/Forcing evaluation failed for positions inside the valid region (subgrid {sub}): {type(e).__name__}: {e}",
                            tb=traceback.format_exc(limit=-5)[-1200:], **desc))
            return C.result(V, sit, cnt, nontrivial=True, key=str(case["idx"]), sample=desc)
        sg_ = -1.0 if rev_run else 1.0  # compared below with the forward reference
        if rev_run and sub is None and kind == "random":
            second = (sg_ * second[0], sg_ * second[1], second[2])
        results.append((sg_ * np.array(U, float), sg_ * np.array(Vv, float), sc, sg_ * fu, sg_ * fv))
    U0, V0, sc0, fu0, fv0 = results[0]
    sit["vertical_grid_from_Vinfo_file_without_Vtransform"] = int(use_vinfo and Vt == 2)
    sit["vertical_grid_from_Vinfo_Vstretching_2"] = int(use_vinfo and vert["Vstretching"] == 2)
    sit["time_reversed_clock"] = int(rev_run)
    if kind == "random":
        # the second update of the same Forcing must give every particle exactly what the first gave the particle it swapped with
        # (two packed files: the same physical field, re-quantised with the second file's parameters - compared at that precision)
        U2, V2, sc2 = second
        sit["consecutive_update_values_compared"] = n
        sit["second_file_with_other_packing"] = int(two_files)
        sit["grid_file_with_mask_u_and_mask_v"] = int(bool(spec.get("staggered_masks")) and mask.get("p", 0.0) > 0)
        sit["later_frame_nonzero_on_land_faces_first_frame_zero"] = int(land_zero_first)
        d2 = max(float(np.max(np.abs(U2 - U0))), float(np.max(np.abs(V2 - V0))), float(np.max(np.abs(sc2["temp"] - sc0["temp"]))))
        if two_files:  # quantisation steps of the two files: u, v <= 2e-4, temp <= 2e-3
            d2 = max(float(np.max(np.abs(U2 - U0))) / 4.0e-4, float(np.max(np.abs(V2 - V0))) / 4.0e-4, float(np.max(np.abs(sc2["temp"] - sc0["temp"]))) / 3.0e-3)
            d2 = 0.0 if d2 <= 1.0 else d2
        if d2 > 0.0:
            k = int(np.argmax(np.abs(U2 - U0) + np.abs(V2 - V0) + np.abs(sc2["temp"] - sc0["temp"])))
            V.append(C.viol(f"second update() of the same Forcing (same particle count, particles permuted): particle at ({X[k]},{Y[k]},Z={Z[k]}) gets ({U2[k]:.8f},{V2[k]:.8f}, temp {sc2['temp'][k]}) "
                            f"instead of ({U0[k]:.8f},{V0[k]:.8f}, temp {sc0['temp'][k]}): per-particle data of the previous step leaks into this one, or the later frame is treated differently (masking, unpacking)", **desc))
    if not (np.max(np.abs(fu0 - U0)) <= 1e-12) or not (np.max(np.abs(fv0 - V0)) <= 1e-12):
        V.append(C.viol("forcing.variables['u','v'] after update() differ from forcing.velocity at the same positions", **desc))

    # --- reference interpolation with global indices
    u, v = raw["u"], raw["v"]  # (N, jmax, imax-1), (N, jmax-1, imax)
    MU = M[:, :-1] * M[:, 1:]
    MV = M[:-1, :] * M[1:, :]
    nbad = 0
    for p in range(n):
        cells = [(Jc[p], Ic[p])]
        if tieX[p]:
            cells = [(j, i) for (j, _i) in cells for i in (int(np.floor(X[p])), int(np.floor(X[p])) + 1)]
        if tieY[p]:
            cells = [(j, i) for (_j, i) in cells for j in (int(np.floor(Y[p])), int(np.floor(Y[p])) + 1)]
        iu = int(np.floor(X[p] - 0.5))
        pu = X[p] - 0.5 - iu
        ju = int(np.floor(Y[p]))
        qu = Y[p] - ju
        iv = int(np.floor(X[p]))
        pv = X[p] - iv
        jv = int(np.floor(Y[p] - 0.5))
        qv = Y[p] - 0.5 - jv
        wu = [((1 - pu) * (1 - qu), ju, iu), (pu * (1 - qu), ju, iu + 1), ((1 - pu) * qu, ju + 1, iu), (pu * qu, ju + 1, iu + 1)]
        wv = [((1 - pv) * (1 - qv), jv, iv), (pv * (1 - qv), jv, iv + 1), ((1 - pv) * qv, jv + 1, iv), (pv * qv, jv + 1, iv + 1)]
        okU = okV = False
        wantU = wantV = None
        for (jc, ic) in cells:
            k0, k1, w0, cand = level_pair(ZR[:, jc, ic], Z[p])
            nodes_u = []
            eu = 0.0
            for wgt, j, i in wu:
                if wgt == 0.0 and (j >= u.shape[1] or i >= u.shape[2]):
                    continue
                m = MU[j, i]
                a, b = u[k0, j, i] * m, u[k1, j, i] * m
                nodes_u += [a, b]
                eu += wgt * (w0 * a + (1 - w0) * b)
            nodes_v = []
            ev = 0.0
            for wgt, j, i in wv:
                if wgt == 0.0 and (j >= v.shape[1] or i >= v.shape[2]):
                    continue
                m = MV[j, i]
                a, b = v[k0, j, i] * m, v[k1, j, i] * m
                nodes_v += [a, b]
                ev += wgt * (w0 * a + (1 - w0) * b)
            su = max(1.0, max(abs(x) for x in nodes_u))
            sv = max(1.0, max(abs(x) for x in nodes_v))
            tol = 1e-11 if store == "f8" else 1.5e-6
            wantU, wantV = eu, ev
            if abs(U0[p] - eu) <= tol * su:
                okU = True
                if not (min(nodes_u) - tol * su <= U0[p] <= max(nodes_u) + tol * su):
                    V.append(C.viol(f"u at ({X[p]},{Y[p]},{Z[p]}) = {U0[p]} is outside the range of the 8 contributing nodes", **desc))
            if abs(V0[p] - ev) <= tol * sv:
                okV = True
            # scalars: own cell at one of the two bracketing levels
            for name in ("temp", "salt"):
                vals = [raw[name][k, jc, ic] for k in cand]
                if any(abs(sc0[name][p] - x) <= 2e-3 * packed + 1e-5 for x in vals):
                    sc0.setdefault("_ok_" + name, set()).add(p)
        _bump(cnt, "positions_compared")
        if any(m_ == 0 for m_ in (MU[wu[0][1], wu[0][2]], MU[wu[1][1], wu[1][2]])) and M[Jc[p], Ic[p]] > 0:
            _bump(sit, "land_face_contributes")
        if not (okU and okV):
            nbad += 1
            if nbad <= 2:
                V.append(C.viol(f"velocity at ({X[p]!r},{Y[p]!r},Z={Z[p]!r}) = ({U0[p]:.8f},{V0[p]:.8f}); interpolation of the file's u/v at the particle's own position gives "
                                f"({wantU:.8f},{wantV:.8f})", tie=[bool(tieX[p]), bool(tieY[p])], **desc))
        for name in ("temp", "salt"):
            _bump(cnt, "scalar_values_compared")
            if p not in sc0.get("_ok_" + name, ()):  # type: ignore[operator]
                nbad += 1
                if nbad <= 3:
                    V.append(C.viol(f"scalar {name} at ({X[p]},{Y[p]},Z={Z[p]}) = {sc0[name][p]}; own cell ({Jc[p]},{Ic[p]}) holds {[float(raw[name][k, Jc[p], Ic[p]]) for k in sorted(level_pair(ZR[:, Jc[p], Ic[p]], Z[p])[3])]} at the bracketing levels", **desc))
    sit["positions_compared"] = n
    sit["convexity_checked"] = n
    sit["scalar_values_compared"] = 2 * n
    sit["depth_above_top_level"] = int(np.sum(-Z > ZR[-1, Jc, Ic]))
    sit["depth_below_bottom_level"] = int(np.sum(-Z < ZR[0, Jc, Ic]))
    sit["depth_on_level"] = len(on)
    sit["edge_tie_positions"] = int(np.sum(tieX | tieY))
    sit["rim_positions"] = 80
    sit["all_particles_shallower_than_the_deepest_uppermost_level"] = int(all_shallow and bool(np.any(Z > -ZR[-1][Jc, Ic])))
    sit["neighbours_in_the_arrays_one_row_and_1000_columns_apart"] = npairs
    sit["packed_storage"] = int(packed)
    sit["packed_with_different_scale_factors"] = int(bool(packed) and spec["pack"]["u"] != spec["pack"]["v"])
    sit["vtransform2"] = int(Vt == 2)
    # --- oracle-free exactness
    if kind == "linear_levels":
        coef = np.array(vel["coef"])
        exp_u = np.empty(n)
        for p in range(n):
            if tieX[p] or tieY[p]:
                exp_u[p] = np.nan
                continue
            k0, k1, w0, _c = level_pair(ZR[:, Jc[p], Ic[p]], Z[p])
            f = lambda k: coef[k, 0] + coef[k, 1] * X[p] + coef[k, 2] * Y[p]  # noqa: E731
            exp_u[p] = w0 * f(k0) + (1 - w0) * f(k1)
        okm = ~np.isnan(exp_u)
        if not (np.max(np.abs(U0[okm] - exp_u[okm])) <= 1e-9):
            V.append(C.viol(f"u is not exact for a field linear in x and y on the levels (max error {np.max(np.abs(U0[okm] - exp_u[okm])):.3g})", **desc))
        _bump(sit, "linear_levels_exact", int(okm.sum()))
    if kind == "linear3d":
        zc = np.clip(-Z, ZR[0, 0, 0], ZR[-1, 0, 0])
        exp_u = vel["u0"] + vel["ux"] * X + vel["uy"] * Y + vel["uz"] * zc
        exp_v = vel["v0"] + vel["vx"] * X + vel["vy"] * Y + vel["vz"] * zc
        err = max(np.max(np.abs(U0 - exp_u)), np.max(np.abs(V0 - exp_v)))
        if not (err <= 1e-9):
            V.append(C.viol(f"velocity is not exact for a field linear in x, y and depth over a flat bottom (max error {err:.3g})", **desc))
        _bump(sit, "linear3d_exact", n)
    # --- subgrid pair monitor
    for sub, (U1, V1, sc1, _a, _b) in zip(subs[1:], results[1:]):
        nt = ~(tieX | tieY)
        if min(sub) < 0:
            _bump(sit, "subgrid_with_negative_limits")
        _bump(sit, "subgrid_pairs_compared", int(nt.sum()))
        du = np.max(np.abs(U1[nt] - U0[nt]))
        dv = np.max(np.abs(V1[nt] - V0[nt]))
        ds = max(np.max(np.abs(sc1[k][nt] - sc0[k][nt])) for k in ("temp", "salt"))
        if not (du <= 1e-11) or not (dv <= 1e-11) or not (ds <= 0):
            p = int(np.argmax(np.where(nt, np.abs(U1 - U0) + np.abs(V1 - V0) + np.abs(sc1["temp"] - sc0["temp"]), 0)))
            V.append(C.viol(f"forcing at the same position depends on the loaded subgrid: full grid ({U0[p]:.8f},{V0[p]:.8f}, temp {sc0['temp'][p]}) vs subgrid {sub} "
                            f"({U1[p]:.8f},{V1[p]:.8f}, temp {sc1['temp'][p]}) at ({X[p]},{Y[p]},{Z[p]})", **desc))
    key = f"{imax}|{jmax}|{N}|{kind}|{packed}|{Vt}|{case['idx']}"
    sample = dict(grid=[imax, jmax, N], kind=kind, packed=bool(packed), vert=vert, subgrids=subs, land_fraction=float(1 - M.mean()), positions=n,
                  example_position=[float(X[0]), float(Y[0]), float(Z[0])], example_velocity=[float(U0[0]), float(V0[0])])
    return C.result(V[:4], sit, cnt, nontrivial=True, key=key, sample=sample)
