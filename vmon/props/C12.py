"""C12 Vertical grid: s-levels ordered inside the water column, depth lookup consistent.

Monitor: icontract postconditions attached (by the harness) to the real ladim.ROMS.s_stretch, sdepth and z2s;
they fire on every call, including the calls ROMS.Grid.__init__ makes when a Grid is built from a file or
from Vinfo."""

from __future__ import annotations

from pathlib import Path
from typing import Any

import numpy as np

from vmon import common as C
from vmon import world as W

LEVEL = "exploration"
TECHNIQUE = "runtime monitoring: icontract postconditions on s_stretch / sdepth / z2s evaluated on every call over the quantified parameter box, incl. calls made by ROMS.Grid built from files and from Vinfo"
LEVEL_TEXT = ("Random points of the quantified parameter box (N 1-60, theta_s (0,10], theta_b per Vstretching, Vtransform 1 with hc <= h and 2, h 1-5000 m, "
              "variable bathymetry, particle depths from above the surface to below the bottom and exactly on levels) are pushed through the real functions "
              "under postconditions: monotone stretching curves from -1 to 0, levels strictly increasing inside (-h,0), w-levels from -h to 0 interleaving "
              "with rho-levels, lookup weight in [0,1] and weighted level depth == clamped particle depth.")
LEVEL_NOTE = "Tolerances 1e-9*h on depth identities; N = 1 has no level pair: index validity is required only where the weight is non-zero. Trusts icontract (evaluation counts reported; zero => inconclusive)."
RULE = ("case = chunk of random parameter points; every point calls s_stretch (rho,w), sdepth (rho,w) and z2s for ~40 depths per column; some chunks build a real "
        "ROMS.Grid from a generated file and from Vinfo. Non-trivial point: N >= 2 and stretched (theta_s > 0.5); distinct by rounded parameters.")
MANDATORY = ["grid_from_vinfo_with_defaults", "z2s_call_with_more_than_20000_particles", "grid_file_with_land_cells", "bathymetry_as_integer_array", "vinfo_theta_b_exactly_zero_vstretching_1", "vinfo_with_hc_zero_on_a_file_with_hc", "vinfo_with_another_hc_than_the_file", "z2s_result_kept_over_a_second_lookup", "grid_file_with_Tcline", "bathymetry_not_c_contiguous", "z2s_calls_over_many_cells", "post_s_stretch", "post_sdepth", "post_z2s", "vtransform1", "vtransform2", "vstretching1", "vstretching2", "vstretching4",
             "depth_above_surface", "depth_below_bottom", "depth_on_level", "grid_from_file", "grid_from_vinfo", "N1", "vinfo_dictionary_reused", "grid_file_without_Vtransform", "grid_file_with_Vstretching"]
ASSUMPTIONS = ["zeta = 0 (ladim ignores sea-surface elevation)", "Vtransform 1 only with hc <= min(h), as the property quantifies"]
TIMEOUT = {"quick": 600, "thorough": 3000}


class PostBroken(Exception):
    _vmon_target = True  # a broken contract is a verdict about the code under test, also when it fires inside a ladim run


_st: dict[str, Any] = dict(installed=False, n=dict(s_stretch=0, sdepth=0, z2s=0))


def stretch_ok(N, theta_s, theta_b, stagger, Vstretching, result) -> bool:
    _st["n"]["s_stretch"] += 1
    Cs = np.asarray(result)
    if stagger == "w":
        if len(Cs) != N + 1 or not (abs(Cs[0] + 1.0) <= 1e-12) or not (abs(Cs[-1]) <= 1e-12):
            return False
    elif len(Cs) != N or np.any(Cs <= -1.0) or np.any(Cs >= 0.0):
        return False
    if np.any(~np.isfinite(Cs)) or np.any(Cs < -1.0 - 1e-12) or np.any(Cs > 1e-12):
        return False
    return bool(np.all(np.diff(Cs) > 0))


def sdepth_ok(H, Hc, C, stagger, Vtransform, result) -> bool:  # noqa: N803
    _st["n"]["sdepth"] += 1
    H = np.asarray(H, float)
    z = np.asarray(result)
    if z.shape != (len(C), *H.shape) or np.any(~np.isfinite(z)):
        return False
    tol = 1e-9 * np.maximum(H, 1.0)
    if np.any(np.diff(z, axis=0) <= 0):
        return False
    if stagger == "w":
        return bool(np.all(np.abs(z[0] + H) <= tol) and np.all(np.abs(z[-1]) <= tol))
    return bool(np.all(z[0] > -H) and np.all(z[-1] < 0))


def z2s_ok(z_rho, X, Y, Z, result) -> bool:
    _st["n"]["z2s"] += 1
    K, A = result
    K = np.asarray(K)
    A = np.asarray(A)
    N = z_rho.shape[0]
    if len(K) != len(Z) or len(A) != len(Z):
        return False
    if np.any(A < 0) or np.any(A > 1) or np.any(~np.isfinite(A)):
        return False
    I = np.around(X).astype(int)
    J = np.around(Y).astype(int)
    for n in range(len(Z)):
        zr = z_rho[:, J[n], I[n]]
        k, a = int(K[n]), float(A[n])
        val = 0.0
        if a != 0.0:
            if not 0 <= k - 1 < N:
                return False
            val += a * zr[k - 1]
        if a != 1.0:
            if not 0 <= k < N:
                return False
            val += (1 - a) * zr[k]
        want = min(max(-Z[n], zr[0]), zr[-1])
        if not (abs(val - want) <= 1e-9 * max(1.0, abs(zr[0]))):
            return False
    return True


def _install():
    import icontract  # noqa: PLC0415
    import ladim.ROMS as R  # noqa: PLC0415

    if not _st["installed"]:
        R.s_stretch = icontract.ensure(stretch_ok, error=PostBroken)(R.s_stretch)
        R.sdepth = icontract.ensure(sdepth_ok, error=PostBroken)(R.sdepth)
        R.z2s = icontract.ensure(z2s_ok, error=PostBroken)(R.z2s)
        _st["installed"] = True
    return R


def gen_cases(tier: str, seed: int) -> list[dict[str, Any]]:
    n = 48 if tier == "quick" else 8000
    per = 45 if tier == "quick" else 210
    cases = [dict(kind="points", seed=seed, idx=i, n=per) for i in range(n)]
    ng = 16 if tier == "quick" else 2000
    cases += [dict(kind="grid", seed=seed, idx=i) for i in range(ng)]
    return cases


def _params(rng) -> dict[str, Any]:
    vs = int(rng.choice([1, 2, 4]))
    N = int(rng.choice([1, 2, 3, 5, 10, 20, 35, 60])) if rng.random() < 0.6 else int(rng.integers(1, 61))
    theta_s = float(rng.choice([1e-3, 0.1, 1.0, 3.0, 5.0, 7.0, 10.0])) if rng.random() < 0.5 else float(rng.uniform(1e-3, 10.0))
    if vs == 1:
        theta_b = float(rng.choice([0.0, 0.1, 0.4, 1.0])) if rng.random() < 0.5 else float(rng.uniform(0, 1))
    else:
        theta_b = float(rng.choice([1e-3, 0.5, 2.0, 4.0])) if rng.random() < 0.5 else float(rng.uniform(1e-3, 4.0))
    vt = int(rng.choice([1, 2]))
    return dict(N=N, theta_s=theta_s, theta_b=theta_b, Vstretching=vs, Vtransform=vt)


def _depths(rng, zr_col: np.ndarray, h: float) -> np.ndarray:
    zs = list(rng.uniform(-5.0, h * 1.2, size=20))
    zs += [0.0, h, -1.0, h + 1.0, 1e-9, h - 1e-9]
    zs += [float(-z) for z in zr_col[:: max(1, len(zr_col) // 6)]]  # exactly on levels
    zs += [float(-z) + 1e-9 for z in zr_col[:3]] + [float(-z) - 1e-9 for z in zr_col[-3:]]
    return np.array(zs)


def run_case(case: dict[str, Any], wd: Path) -> dict[str, Any]:
    R = _install()
    V: list = []
    sit: dict[str, int] = {}
    cnt: dict[str, int] = {}
    keys: set = set()
    n0 = dict(_st["n"])
    rng = C.rng_for(case["seed"], 12, case["idx"], 1 if case["kind"] == "grid" else 0)

    def bump(k, v=1):
        sit[k] = sit.get(k, 0) + v

    def guarded(what: str, params: dict, f, *a, **k):
        try:
            return f(*a, **k)
        except PostBroken as e:
            V.append(C.viol(f"{what}: postcondition broken", params=params, err=str(e)[:400]))
        except Exception as e:  # noqa: BLE001
            V.append(C.viol(f"{what} raised {type(e).__name__}: {e}", params=params))
        return None

    example = None
    if case["kind"] == "points":
        for _ in range(case["n"]):
            p = _params(rng)
            N = p["N"]
            nx = 4
            hkind = rng.random()
            if hkind < 0.3:
                h = np.full((3, nx), float(rng.choice([1.0, 10.0, 100.0, 5000.0])))
            else:
                h = np.exp(rng.uniform(np.log(1.0), np.log(5000.0), size=(3, nx)))
            hmin = float(h.min())
            hc = float(rng.choice([0.0, hmin, 0.5 * hmin, min(hmin, 20.0)])) if p["Vtransform"] == 1 else float(rng.choice([1e-6, 5.0, 20.0, 250.0, 6000.0]))
            p["hc"] = hc
            p["h"] = [float(h.min()), float(h.max())]
            example = example or p
            bump(f"vtransform{p['Vtransform']}")
            bump(f"vstretching{p['Vstretching']}")
            if N == 1:
                bump("N1")
            Cr = guarded("s_stretch(rho)", p, R.s_stretch, N, p["theta_s"], p["theta_b"], stagger="rho", Vstretching=p["Vstretching"])
            Cw = guarded("s_stretch(w)", p, R.s_stretch, N, p["theta_s"], p["theta_b"], stagger="w", Vstretching=p["Vstretching"])
            if Cr is None or Cw is None:
                continue
            if p["Vstretching"] == 1 and rng.random() < 0.2:
                # the documented defaults (rho points, Vstretching 1) written out or left out: the same curve
                Cd = guarded("s_stretch(defaults)", p, R.s_stretch, N, p["theta_s"], p["theta_b"])
                bump("s_stretch_called_with_its_defaults")
                if Cd is not None and not np.array_equal(np.asarray(Cd), np.asarray(Cr)):
                    V.append(C.viol("s_stretch(N, theta_s, theta_b) with the defaults left out differs from the call with stagger='rho', Vstretching=1 written out", params=p))
            hin = h
            if hkind >= 0.3 and rng.random() < 0.4:
                # the same bathymetry in another memory layout (Fortran order / a transposed view)
                hin = np.asfortranarray(h) if rng.random() < 0.5 else np.ascontiguousarray(h.T).T
                bump("bathymetry_not_c_contiguous")
            if rng.random() < 0.2 and float(np.min(h)) >= 2.0 and (p["Vtransform"] == 2 or hc <= np.floor(np.min(h))):
                # bathymetry given in whole metres as an integer array (a legal data type for h): the levels are still real numbers
                h = np.floor(h)
                hin = h.astype(np.int32 if rng.random() < 0.5 else np.int64)
                bump("bathymetry_as_integer_array")
            zr = guarded("sdepth(rho)", p, R.sdepth, hin, hc, Cr, stagger="rho", Vtransform=p["Vtransform"])
            zw = guarded("sdepth(w)", p, R.sdepth, hin, hc, Cw, stagger="w", Vtransform=p["Vtransform"])
            if zr is None or zw is None:
                continue
            # interleaving: z_w[k] < z_r[k] < z_w[k+1]
            if not (np.all(zw[:-1] < zr) and np.all(zr < zw[1:])):
                V.append(C.viol("w-levels do not interleave with rho-levels", params=p))
            cnt["columns"] = cnt.get("columns", 0) + h.size
            j, i = int(rng.integers(3)), int(rng.integers(nx))
            Z = _depths(rng, zr[:, j, i], float(h[j, i]))
            X = np.full(len(Z), float(i)) + rng.uniform(-0.49, 0.49, size=len(Z))
            Y = np.full(len(Z), float(j)) + rng.uniform(-0.49, 0.49, size=len(Z))
            bump("depth_above_surface", int(np.sum(Z < 0)))
            bump("depth_below_bottom", int(np.sum(Z > h[j, i])))
            bump("depth_on_level", int(np.sum(np.isin(-Z, zr[:, j, i]))))
            guarded("z2s", p, R.z2s, zr, X, Y, Z)
            cnt["depth_lookups"] = cnt.get("depth_lookups", 0) + len(Z)
            # one call with particles in many different cells, neighbours sharing a row or a column index
            cells = [(jj_, ii_) for jj_ in range(3) for ii_ in range(nx)] + [(jj_, ii_) for ii_ in range(nx) for jj_ in range(3)]
            Xm = np.array([float(c_[1]) for c_ in cells]) + rng.uniform(-0.49, 0.49, size=len(cells))
            Ym = np.array([float(c_[0]) for c_ in cells]) + rng.uniform(-0.49, 0.49, size=len(cells))
            Zm = np.array([float(rng.uniform(-0.05, 1.05)) * float(h[c_]) for c_ in cells])
            # ... and particles exactly on the edge between two cells (k + 0.5 with k even: the column is the one numpy's rounding gives, as in the sampling of the fields)
            ties = [(0.5, 1.0), (2.5, 0.0), (1.0, 0.5), (2.5, 0.5), (0.5, 2.0)]
            Xm = np.concatenate([Xm, [t_[0] for t_ in ties]])
            Ym = np.concatenate([Ym, [t_[1] for t_ in ties]])
            Zm = np.concatenate([Zm, [0.5 * float(h[int(np.around(t_[1])), int(np.around(t_[0]))]) for t_ in ties]])
            first = guarded("z2s (particles in many cells)", p, R.z2s, zr, Xm, Ym, Zm)
            if first is not None:
                # a second lookup for as many particles at other depths must leave the first answer as it was
                K1, A1 = np.array(first[0]).copy(), np.array(first[1]).copy()
                guarded("z2s (second lookup, same number of particles)", p, R.z2s, zr, Xm, Ym, 0.37 * Zm + 0.01)
                bump("z2s_result_kept_over_a_second_lookup")
                if np.any(np.asarray(first[0]) != K1) or np.any(np.asarray(first[1]) != A1):
                    V.append(C.viol("the index/weight arrays returned by z2s changed when z2s was called again for other depths", params=p))
            bump("z2s_calls_over_many_cells")
            if rng.random() < 0.04:
                # a large cloud in one call (tens of thousands of particles), depths from above the surface to below the bottom
                nb = int(rng.integers(21000, 70000))
                Ib, Jb = rng.integers(0, nx, size=nb), rng.integers(0, 3, size=nb)
                Xb = Ib + rng.uniform(-0.49, 0.49, size=nb)
                Yb = Jb + rng.uniform(-0.49, 0.49, size=nb)
                Zb = rng.uniform(-0.1, 1.1, size=nb) * h[Jb, Ib]
                Zb[::5] = 0.0
                guarded("z2s (large cloud in one call)", p, R.z2s, zr, Xb, Yb, Zb)
                bump("z2s_call_with_more_than_20000_particles")
            if N >= 2 and p["theta_s"] > 0.5:
                keys.add((N, round(p["theta_s"], 3), round(p["theta_b"], 3), p["Vstretching"], p["Vtransform"], round(hc, 3)))
            if len(V) > 4:
                break
    else:
        p = _params(rng)
        p["N"] = max(2, p["N"] % 25)
        if case["idx"] % 8 == 5:
            p["Vstretching"], p["theta_b"] = 1, 0.0  # theta_b exactly 0 is inside Vstretching 1's range
            bump("vinfo_theta_b_exactly_zero_vstretching_1")
        if case["idx"] % 8 == 1:
            p["Vstretching"], p["Vtransform"] = 1, 1  # these cases also build a Grid from a Vinfo that leaves both out (documented defaults: 1 and 1)
            p["theta_b"] = p["theta_b"] if p["theta_b"] <= 1.0 else p["theta_b"] / 4.0  # Vstretching 1 takes theta_b in [0, 1]
        if case["idx"] % 4 == 0:
            p["Vtransform"] = 1  # these cases write a file without the Vtransform variable
        hmin, hmax = 5.0, float(rng.choice([50.0, 800.0, 4000.0]))
        hc = float(rng.uniform(0, hmin)) if p["Vtransform"] == 1 else float(rng.choice([5.0, 20.0, 250.0]))
        p["hc"] = hc
        example = p
        spec = dict(imax=9, jmax=8, N=p["N"], t0=C.T0, frames=[0, 3600], files=[2], vel=dict(kind="zero"),
                    h=dict(kind="random", hmin=hmin, hmax=hmax, seed=case["idx"]),
                    vert=dict(Vtransform=p["Vtransform"], Vstretching=p["Vstretching"], theta_s=p["theta_s"], theta_b=p["theta_b"], hc=hc))
        if p["Vtransform"] == 1 and case["idx"] % 4 == 0:
            spec["vert"]["write_Vtransform"] = False  # files of older ROMS versions carry no Vtransform variable: transform 1
            bump("grid_file_without_Vtransform")
        if case["idx"] % 2 == 1:
            spec["vert"]["Tcline"] = float(hc) + [40.0, 190.0][case["idx"] % 4 // 2]  # other ROMS parameters in the file, different from hc
            bump("grid_file_with_Tcline")
        if case["idx"] % 3 == 0:
            spec["vert"]["write_Vstretching"] = True
            bump("grid_file_with_Vstretching")
        if case["idx"] % 2 == 0:
            spec["mask"] = dict(kind="random", p=0.25, seed=case["idx"])  # land cells: the bathymetry there has its levels like everywhere else
            bump("grid_file_with_land_cells")
        w = W.write_world(wd / "w", spec)
        sub = [2, 7, 1, 6] if rng.random() < 0.5 else None
        vinfo = dict(N=p["N"], hc=hc, theta_s=p["theta_s"], theta_b=p["theta_b"], Vstretching=p["Vstretching"], Vtransform=p["Vtransform"])
        vinfo_before = dict(vinfo)
        # the same Vinfo dictionary is used for several Grids (whole grid, then a subgrid): they must describe the same levels
        # a Vinfo that says something else than the file (hc = 0, i.e. pure sigma levels, or half the file's hc; another theta_s): Vinfo decides
        vinfo2 = dict(vinfo, hc=0.0 if case["idx"] % 2 == 0 else 0.5 * hc, theta_s=0.7 * p["theta_s"] + 0.3)
        S2, C2 = W.stretching(p["N"], vinfo2["theta_s"], p["theta_b"], "rho", p["Vstretching"])
        zr2 = W.level_depths(w["G"]["h"], vinfo2["hc"], S2, C2, p["Vtransform"])
        for label, kw, sub_ in ((("grid_from_file", dict(), sub), ("grid_from_vinfo", dict(Vinfo=vinfo), sub),
                                ("grid_from_vinfo_again", dict(Vinfo=vinfo), [2, 7, 1, 6] if sub is None else None),
                                ("grid_from_vinfo_differing_from_the_file", dict(Vinfo=vinfo2), sub))
                               + ((("grid_from_vinfo_with_defaults", dict(Vinfo={k_: v_ for k_, v_ in vinfo.items() if k_ not in ("Vstretching", "Vtransform")}), sub),)
                                  if (p["Vstretching"] == 1 and p["Vtransform"] == 1) else ())):
            g = guarded(f"ROMS.Grid ({label})", p, R.Grid, filename=str(w["gridfile"]), subgrid=sub_, **kw)
            if g is None:
                continue
            bump(label)
            bump(f"vtransform{p['Vtransform']}")
            bump(f"vstretching{p['Vstretching']}")
            H = g.H
            if g.z_r.shape != (p["N"], *H.shape) or g.z_w.shape != (p["N"] + 1, *H.shape):
                V.append(C.viol(f"{label}: z_r/z_w shapes {g.z_r.shape}/{g.z_w.shape}", params=p))
                continue
            if not (np.all(g.z_w[:-1] < g.z_r) and np.all(g.z_r < g.z_w[1:])):
                V.append(C.viol(f"{label}: w-levels do not interleave with rho-levels", params=p))
            # the Grid's levels must be those of the file's own bathymetry
            zr_ref = w["G"]["zr"][:, g.J, g.I]
            if label == "grid_from_file" and not (np.max(np.abs(g.z_r - zr_ref)) <= 1e-9 * hmax):
                V.append(C.viol(f"{label}: z_r differs from the levels implied by the file (max {np.max(np.abs(g.z_r - zr_ref))})", params=p))
            if label == "grid_from_vinfo_differing_from_the_file":
                bump("vinfo_with_hc_zero_on_a_file_with_hc" if vinfo2["hc"] == 0.0 and hc > 0 else "vinfo_with_another_hc_than_the_file")
                if p["Vstretching"] in (1, 4) and not np.max(np.abs(g.z_r - zr2[:, g.J, g.I])) <= 1e-6 * hmax:
                    V.append(C.viol(f"{label}: Vinfo gives hc = {vinfo2['hc']}, theta_s = {vinfo2['theta_s']:.4f} (the file has hc = {hc}, theta_s = {p['theta_s']:.4f}); z_r of the Grid differs from "
                                    f"the levels of Vinfo's set-up by up to {np.max(np.abs(g.z_r - zr2[:, g.J, g.I])):.4g} m (Grid.hc = {getattr(g, 'hc', None)})", params=p))
            elif label.startswith("grid_from_vinfo"):
                # Vinfo repeats the file's own vertical set-up here, so the levels must be the file's (to rounding of the two stretching implementations)
                if p["Vstretching"] in (1, 4) and not (np.max(np.abs(g.z_r - zr_ref)) <= 1e-6 * hmax):
                    V.append(C.viol(f"{label}: z_r of a Grid built from Vinfo differs from the levels of the same vertical set-up (max {np.max(np.abs(g.z_r - zr_ref)):.4g} m)", params=p))
                if vinfo != vinfo_before:
                    V.append(C.viol(f"{label}: building a Grid changed the caller's Vinfo dictionary: {vinfo} (was {vinfo_before})", params=p))
                bump("vinfo_dictionary_reused")
            jj, ii = int(rng.integers(H.shape[0])), int(rng.integers(H.shape[1]))
            Z = _depths(rng, g.z_r[:, jj, ii], float(H[jj, ii]))
            guarded("z2s on Grid.z_r", p, R.z2s, g.z_r, np.full(len(Z), float(ii)), np.full(len(Z), float(jj)), Z)
            cnt["depth_lookups"] = cnt.get("depth_lookups", 0) + len(Z)
            keys.add((label, p["N"], round(p["theta_s"], 3), p["Vstretching"], p["Vtransform"]))
    for k in ("s_stretch", "sdepth", "z2s"):
        sit[f"post_{k}"] = _st["n"][k] - n0[k]
    sample = dict(case=case, example_parameters=example, parameter_points=len(keys), postcondition_evaluations={k: sit[f"post_{k}"] for k in ("s_stretch", "sdepth", "z2s")})
    return C.result(V[:5], sit, cnt, nontrivial=len(keys) > 0, key=f"{case['kind']}|{case['idx']}", sample=sample, distinct_count=len(keys))
