"""C06 Output records are faithful snapshots in a well-formed ragged or dense file.

Monitor: hook at the Output.write call boundary snapshots the live rows of the state and the clock; after the run
the NetCDF file(s) are read back exactly as the format documentation prescribes and compared (vmon.outcheck)."""

from __future__ import annotations

from pathlib import Path
from typing import Any

import numpy as np

from vmon import common as C
from vmon import outscn

LEVEL = "exploration"
TECHNIQUE = "runtime monitoring: Output.write call-boundary snapshots vs NetCDF read-back (records via cumulative particle_count, dense [time,pid] with fill, particle variables at index pid)"
LEVEL_TEXT = ("Real end-to-end runs over generated release/death histories (records with zero particles, highest pids dead at the end, everything dead, nothing released yet), "
              "extra instance and particle variables incl. a time-typed one, sparse and dense layout, random reference times, f4/f8/i4 encodings, single and split files, lon/lat output; "
              "every record and every particle variable in every file is compared with the snapshot taken when Output.write was entered.")
LEVEL_NOTE = "f4 encodings compared at 2e-6 relative, f8/i4 exactly. Trusts netCDF4 for reading back and the harness's snapshot hook (hook call count reported)."
RULE = ("case = (dt, steps, period, numrec, layout, reference, release steps and sizes, IBM kill schedule, particle variables or not, lon/lat or not, encoding, moving water). "
        "Non-trivial: at least one death or a late release so that record sizes change; distinct by the whole parameter tuple.")
MANDATORY = ["reference_time_decades_before_the_run", "record_with_living_inactive_particles_dense", "record_with_living_inactive_particles_sparse", "stop_off_grid_steps_multiple_of_period_particle_variables", "packed_output_variable", "forcing_derived_values_checked", "sparse", "dense", "empty_record", "highest_pids_dead_at_file_end", "all_dead_at_end", "late_first_release", "multifile", "explicit_reference",
             "particle_variables", "lonlat_output", "f4_encoding", "records_compared", "dense_lonlat_with_deaths", "warm_started_run_checked"]
ASSUMPTIONS = ["durations are multiples of the time step; residues of steps modulo the period are C07's subject but occur here too"]
TIMEOUT = {"quick": 900, "thorough": 3000}


def gen_case(seed: int, idx: int) -> dict[str, Any]:
    rng = C.rng_for(seed, 6, idx)
    nsteps = int(rng.integers(3, 13))
    period = int(rng.choice([1, 1, 2, 3]))
    layout = "dense" if idx % 3 == 2 else "sparse"
    first = int(rng.choice([0, 0, 0, 1, 2])) if nsteps > 3 else 0
    rel_steps = sorted({first} | {int(s) for s in rng.integers(first, nsteps, size=int(rng.integers(0, 4)))})
    releases = [[s, int(rng.integers(1, 4))] for s in rel_steps]
    ntot = sum(n for _s, n in releases)
    kills: dict[int, Any] = {}
    mode = int(rng.integers(6))
    if mode == 1:  # highest pids die
        kills[int(rng.integers(0, nsteps))] = [ntot - 1] + ([ntot - 2] if ntot > 2 else [])
    elif mode == 2:  # everything dies
        kills[int(rng.integers(max(0, nsteps - 3), nsteps))] = "all"
    elif mode == 3:  # random deaths
        for _ in range(int(rng.integers(1, 4))):
            kills[int(rng.integers(0, nsteps))] = [int(x) for x in rng.integers(0, max(1, ntot), size=int(rng.integers(1, 3)))]
    elif mode == 4:  # early total death then later releases
        kills[first] = "all"
    lonlat = bool(rng.random() < 0.35)
    return dict(idx=idx, salt=idx, dt=int(rng.choice([60, 600])), nsteps=nsteps, period=period,
                numrec=int(rng.choice([0, 0, 1, 2, 3])), layout=layout, reversed=bool(rng.random() < 0.25),
                reference=("1970-01-01T00:00:00" if idx % 10 == 7 else None) if rng.random() < 0.5 else str(C.tadd_iso(C.T0, -int(rng.integers(0, 10**6)))),
                releases=releases, kills=kills, pvars=bool(rng.random() < 0.7), lonlat=lonlat,
                enc="f4" if rng.random() < 0.4 else "f8", speed=float(rng.choice([0.0, 0.05, 0.11])),
                continuous=int(rng.choice([0, 0, 0, 1, 2])), warm=bool(idx % 4 == 1))


def gen_cases(tier: str, seed: int) -> list[dict[str, Any]]:
    n = 180 if tier == "quick" else 20000
    return [gen_case(seed, i) for i in range(n)]


def run_case(case: dict[str, Any], wd: Path) -> dict[str, Any]:
    if case["idx"] % 5 == 2 and not case.get("warm"):
        case = dict(case, extra_stop=case["dt"] // 3)  # the stop time is not on the time grid: the run takes floor(duration / dt) steps
    if case["idx"] % 2 == 0 and case["nsteps"] > 3:
        case = dict(case, deactivate={1: [0], 2: [1, 2]})  # particles switched off by the IBM stay alive and must stay in the records (both layouts)
    case = dict(case, packed_out=bool(case["idx"] % 4 == 2 and case["enc"] == "f8"), scalar=bool(case["idx"] % 4 == 1))
    out = outscn.run_and_check(case, wd)
    res, snaps, V, cnt = out["res"], out["snaps"], out["V"], out["cnt"]
    sit: dict[str, int] = {}
    sit["stop_time_off_the_time_grid"] = int(bool(case.get("extra_stop")))
    sit["stop_off_grid_steps_multiple_of_period_particle_variables"] = int(bool(case.get("extra_stop")) and case["nsteps"] % case["period"] == 0 and bool(case["pvars"]))
    sit["packed_output_variable"] = int(cnt.get("packed_values_compared", 0) > 0)
    if case["scalar"] and res.ok and not V:
        # "the values the model state had at that time": a forcing-derived variable in a record belongs to the record's own positions
        for f in out["files"]:
            for r in f.records:
                if "temp" not in r.vars or not len(r.pid):
                    continue
                Xr, Yr = np.asarray(r.vars["X"], float), np.asarray(r.vars["Y"], float)
                want = 3.0 + 0.5 * np.round(Xr) - 0.25 * np.round(Yr)
                # positions exactly on a cell edge (k + 0.5): which of the two cells owns them is not settled by the property; not judged
                edge = (np.abs(Xr - np.floor(Xr) - 0.5) < 1e-9) | (np.abs(Yr - np.floor(Yr) - 0.5) < 1e-9)
                sit["forcing_derived_values_checked"] = sit.get("forcing_derived_values_checked", 0) + int((~edge).sum())
                if np.any(~edge) and np.max(np.abs(np.asarray(r.vars["temp"], float) - want)[~edge]) > 1e-6 and len(V) < 2:
                    V.append(C.viol(f"{f.path.name} record at {r.time}: forcing-derived variable temp = {np.asarray(r.vars['temp'])[:5].tolist()}, the forcing field in the cells of the record's "
                                    f"own positions holds {want[:5].tolist()}", params=case))
    sit[case["layout"]] = 1
    inact = sum(int(s_.get("inactive_alive", 0)) for s_ in snaps)
    sit["record_with_living_inactive_particles_" + case["layout"]] = int(inact > 0)
    sit["multifile"] = int(case["numrec"] > 0)
    sit["explicit_reference"] = int(case["reference"] is not None)
    sit["reference_time_decades_before_the_run"] = int(str(case["reference"]).startswith("1970"))
    sit["particle_variables"] = int(case["pvars"])
    sit["lonlat_output"] = int(case["lonlat"])
    sit["f4_encoding"] = int(case["enc"] == "f4")
    sit["late_first_release"] = int(case["releases"][0][0] > 0)
    sizes = [len(s["alive_pids"]) for s in snaps]
    sit["empty_record"] = int(any(n == 0 for n in sizes))
    sit["all_dead_at_end"] = int(bool(sizes) and sizes[-1] == 0 and max(sizes) > 0)
    if snaps:
        last = snaps[-1]
        sit["highest_pids_dead_at_file_end"] = int(last["npid"] > 0 and (len(last["alive_pids"]) == 0 or int(last["alive_pids"].max()) < last["npid"] - 1))
    deaths = any(b < a for a, b in zip(sizes, sizes[1:])) or any(len(s["alive_pids"]) < s["nstate"] for s in snaps)
    sit["dense_lonlat_with_deaths"] = int(case["layout"] == "dense" and case["lonlat"] and deaths)
    sit["records_compared"] = cnt.get("records_compared", 0)
    sit["warm_started_run_checked"] = cnt.get("warm_runs", 0)
    key = str({k: v for k, v in case.items() if k not in ("idx", "salt")})
    sample = dict(params={k: v for k, v in case.items() if k != "salt"}, record_sizes=sizes, files=[f.path.name for f in out["files"]])
    if not res.ok:
        V.append(C.viol(f"run did not complete: {res.exc}", tb=res.tb[-1500:], params=case, record_sizes=sizes))
    elif out["still_open"]:
        V.append(C.viol(f"{out['still_open']} output dataset(s) still open after Model.finish()", params=case))
    nontrivial = len(set(sizes)) > 1
    return C.result(V[:3], sit, cnt, nontrivial=nontrivial, key=key, sample=sample)
