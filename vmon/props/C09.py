"""C09 Particles stay in the water inside the domain; the dead stay dead.

Monitors: (1) transition oracle at the Tracker.update boundary (state before/after, the advective and diffusive
velocities returned by the real scheme/diffuse methods are spied): target outside the valid region => dead,
inactive, unmoved; inactive => unmoved; target in a land cell => unmoved and alive; otherwise moved exactly to the
target; (2) per-step invariants on every living particle (finite, inside the valid region, in a sea cell;
nobody comes back to life); (3) output records: a pid that disappeared never reappears."""

from __future__ import annotations

from pathlib import Path
from typing import Any

import numpy as np

from vmon import common as C
from vmon import outcheck
from vmon.hooks import Hooks
from vmon.scenario import all_records, read_outputs, run_scenario, tadd

LEVEL = "exploration"
TECHNIQUE = "runtime monitoring: transition oracle and invariants at the Tracker.update boundary (hooks on Tracker.update/EF/RK2/RK4/diffuse) + pid-set monitor over consecutive output records"
LEVEL_TEXT = ("Real end-to-end runs on random coastlines (islands, one-cell channels, coast next to the open boundary) with jets towards land and towards the boundary (Courant up to 0.95), "
              "diffusion on/off, EF/RK2/RK4, releases in sea cells of the valid region incl. within 1e-6 of its rim, IBM-deactivated and IBM-killed particles, sparse and dense output, subgrids; "
              "every step of every particle is classified by the transition oracle and the invariants are asserted after every step.")
LEVEL_NOTE = "The valid region and sea cells are computed independently from the grid file (mask_rho, subgrid limits). Trusts the spied velocities as the scheme's output (their correctness is C01/C02)."
RULE = ("case = world (mask, flow, subgrid) x run (scheme, diffusion, release, IBM schedule, layout). Non-trivial: at least one move cancelled by land or one particle killed at the "
        "open boundary or one inactive particle held; distinct by case parameters.")
MANDATORY = ["earlier_run_on_files_of_the_same_names_without_land", "subgrid_upper_limits_negative_on_a_non_square_grid", "packed_positions_in_records_compared_with_the_state", "inactive_particles_followed_over_the_restart", "lonlat_release_on_off_diagonal_subgrid", "move_ending_exactly_on_a_land_cell_edge", "warm_start_records_checked_against_earlier_deaths", "record_after_everybody_died", "records_checked_against_deaths", "moved", "cancelled_by_land", "killed_at_boundary", "inactive_held", "diffusion_on", "scheme_EF", "scheme_RK2", "scheme_RK4",
             "tracker_updates", "records_checked", "release_near_rim", "subgrid", "dense", "one_cell_channel", "release_event_adding_nobody", "reversed_time"]
ASSUMPTIONS = ["release positions in sea cells of the valid region (as the property quantifies)"]
TIMEOUT = {"quick": 900, "thorough": 3400}


def gen_case(seed: int, idx: int) -> dict[str, Any]:
    rng = C.rng_for(seed, 9, idx)
    imax, jmax = int(rng.integers(14, 24)), int(rng.integers(12, 20))
    sub = None
    if rng.random() < 0.4:
        sub = [int(rng.integers(1, 4)), imax - int(rng.integers(1, 4)), int(rng.integers(1, 4)), jmax - int(rng.integers(1, 4))]
    mk = int(rng.integers(4))
    land: list[list[int]] = []
    if mk == 0:  # scattered islands
        for _ in range(int(rng.integers(3, 14))):
            land.append([int(rng.integers(0, jmax)), int(rng.integers(0, imax))])
    elif mk == 1:  # east coast with a one-cell channel
        x0 = int(rng.integers(imax // 2, imax - 3))
        ch = int(rng.integers(2, jmax - 2))
        land = [[j, i] for j in range(jmax) for i in range(x0, imax) if j != ch]
    elif mk == 2:  # coast next to the open boundary + islands
        land = [[j, imax - 3] for j in range(0, jmax, 2)] + [[2, i] for i in range(3, imax - 4, 3)]
    else:  # wall with channels
        y0 = int(rng.integers(jmax // 2, jmax - 3))
        land = [[y0, i] for i in range(imax) if i % 5 != 2]
    dt = 600
    dx = 1000.0
    courant = float(rng.choice([0.3, 0.6, 0.95]))
    ang = float(rng.uniform(0, 2 * np.pi))
    sp = courant * dx / dt
    flow = dict(kind="jet", u=sp * np.cos(ang), v=sp * np.sin(ang), shear=float(rng.choice([0.0, 0.3])),
                tmod=float(rng.choice([0.0, 0.3])), tfreq=1e-3)
    tie = bool(idx % 8 == 6)
    if tie:
        # moves that end exactly on the edge between a sea cell and a land cell (position k + 0.5): one cell per step, exactly
        dx = 600.0
        sub = None
        land = [[j, 6] for j in range(jmax)]
        mk = 0
        flow = dict(kind="jet", u=(-1.0 if idx % 16 == 6 else 1.0) * dx / dt, v=0.0, shear=0.0, tmod=0.0, tfreq=1e-3)
    return dict(idx=idx, tie=tie, imax=imax, jmax=jmax, subgrid=sub, land=land, mask_kind=mk, flow=flow, dt=dt, dx=dx,
                scheme=["EF", "RK2", "RK4"][idx % 3], diffusion=0.0 if tie else float(rng.choice([0.0, 0.0, 20.0, 150.0])),
                nsteps=int(rng.integers(12, 31)), nrel=int(rng.integers(12, 40)), layout="dense" if idx % 5 == 4 else "sparse",
                deact_frac=float(rng.choice([0.0, 0.2])), kill_frac=float(rng.choice([0.0, 0.1])), cont=bool(rng.random() < 0.5), reversed=bool(idx % 4 == 3),
                all_die=bool(idx % 8 == 5), warm=bool(idx % 8 == 1))


def gen_cases(tier: str, seed: int) -> list[dict[str, Any]]:
    n = 96 if tier == "quick" else 25000
    return [gen_case(seed, i) for i in range(n)]


def build(case: dict[str, Any]):
    imax, jmax, dt = case["imax"], case["jmax"], case["dt"]
    rng = C.rng_for(7, 99, case["idx"])
    M = np.ones((jmax, imax))
    for j, i in case["land"]:
        M[j, i] = 0
    i0, i1, j0, j1 = case["subgrid"] or [1, imax - 1, 1, jmax - 1]
    xlo, xhi, ylo, yhi = i0 + 0.5, i1 - 1.5, j0 + 0.5, j1 - 1.5
    start = C.T0
    nsteps = case["nsteps"]
    rev = bool(case.get("reversed"))
    sg = -1 if rev else 1
    fr_steps = [-1, nsteps // 2, nsteps + 2]  # frame positions on the simulation axis
    phys = sorted(sg * f for f in fr_steps)
    w = dict(imax=imax, jmax=jmax, N=3, t0=start, frames=[p_ * dt for p_ in phys], files=[2, 1],
             vel=dict(case["flow"]), mask=dict(kind="explicit", land=case["land"]), metric=dict(kind="uniform", dx=case["dx"], dy=case["dx"]),
             h=dict(kind="flat", h=60.0))
    rows = []
    tries = 0
    near_rim = 0
    while len(rows) < case["nrel"] and tries < 5000:
        tries += 1
        x, y = float(rng.uniform(xlo, xhi)), float(rng.uniform(ylo, yhi))
        r = rng.random()
        if r < 0.08:
            x = xlo + 1e-6
        elif r < 0.16:
            x = xhi - 1e-6
        elif r < 0.24:
            y = ylo + 1e-6
        elif r < 0.32:
            y = yhi - 1e-6
        if M[int(round(y)), int(round(x))] < 1:
            continue
        if r < 0.32:
            near_rim += 1
        step = 0 if (not case["cont"] or len(rows) < case["nrel"] // 2) else int(rng.integers(0, max(1, nsteps - 2)))
        rows.append([step, x, y, float(rng.uniform(0, 50))])
    if case.get("tie"):
        x_ = 7.5 if case["flow"]["u"] < 0 else 4.5
        rows = [[0, x_, float(y_), 5.0] for y_ in (3.0, 4.25, 5.5, 6.75)] + [[0, x_ + (1.0 if case["flow"]["u"] < 0 else -1.0), 5.0, 5.0]]
    if case.get("all_die"):
        # a small cohort that leaves through the open boundary (or is killed by the IBM) in one and the same step, nobody left for several
        # records, then a late release: the dead must be gone from every record in between
        ux, vy = case["flow"]["u"], case["flow"]["v"]
        if abs(ux) >= abs(vy):
            cand = [[0, (xhi - 0.2) if ux > 0 else (xlo + 0.2), float(y_), 5.0] for y_ in np.linspace(ylo + 1, yhi - 1, 6)]
        else:
            cand = [[0, float(x_), (yhi - 0.2) if vy > 0 else (ylo + 0.2), 5.0] for x_ in np.linspace(xlo + 1, xhi - 1, 6)]
        rows = [r for r in cand if M[int(round(r[2])), int(round(r[1]))] > 0][:3] or rows[:1]
        late_ = [r for r in cand if M[int(round(r[2])), int(round(r[1]))] > 0][:1]
        rows += [[min(nsteps - 2, 9), r[1], r[2], r[3]] for r in late_]
    if case.get("warm") and not case.get("all_die"):
        # split output and a later warm start from the first file: the newest particle of the first file (the last row released at step 2) is killed
        # at step 3, i.e. before that file's last record, and new particles are released after the restart
        first = [r for r in rows if r[0] == 0][:6] or [[0] + rows[0][1:]]
        inner = sorted(rows, key=lambda r: -min(r[1] - xlo, xhi - r[1], r[2] - ylo, yhi - r[2]))[:2]  # the rows farthest from the rim: they live on for a while
        rows = first + [[2] + first[0][1:]] + [[7] + r[1:] for r in inner]
        nsteps = max(nsteps, 12)
    rows.sort(key=lambda r: r[0])
    relrows = [[str(tadd(start, sg * r[0] * dt)), 1, r[1], r[2], r[3]] for r in rows]
    # release times at which every row has mult = 0 (a release event that adds nobody), spread over the run
    if case["idx"] % 2 == 0:
        for s_ in sorted({int(x) for x in rng.integers(1, max(2, nsteps - 1), size=4)}):
            relrows.append([str(tadd(start, sg * s_ * dt)), 0, 0.5 * (xlo + xhi), 0.5 * (ylo + yhi), 1.0])
        relrows.sort(key=lambda r: r[0], reverse=rev)
    npart = len(rows)
    deact: dict[str, list[int]] = {}
    kill: dict[str, list[int]] = {}
    nd = int(case["deact_frac"] * npart)
    if nd:
        deact[str(int(rng.integers(0, 4)))] = [int(p) for p in rng.choice(npart, size=nd, replace=False)]
    nk = int(case["kill_frac"] * npart)
    if case.get("warm") and not case.get("all_die"):
        deact = {}
        kill = {}
        kill_time = {str(tadd(start, sg * 3 * dt)): [len([r for r in rows if r[0] == 0])]}
    elif case.get("all_die"):
        deact = {}
        kill = {"2": [p for p in range(npart) if rows[p][0] == 0]}  # whoever has not left by then is killed: everybody present dies in that step at the latest
    elif nk:
        kill[str(int(rng.integers(1, 6)))] = [int(p) for p in rng.choice(npart, size=nk, replace=False)]
    relcols = ["release_time", "mult", "X", "Y", "Z"]
    sub_ = case["subgrid"]
    if sub_ and sub_[0] != sub_[2] and case["idx"] % 2 == 0 and not case.get("tie"):
        # release by longitude/latitude (here lon = X and lat = Y numerically) on a subgrid whose corner is off the diagonal; rows a little off the rim,
        # the conversion being accurate to the solver tolerance only
        relcols = ["release_time", "mult", "lon", "lat", "Z"]
        for r_ in relrows:
            r_[2] = float(min(max(r_[2], xlo + 0.01), xhi - 0.01))
            r_[3] = float(min(max(r_[3], ylo + 0.01), yhi - 0.01))
    sub_spelled = case["subgrid"]
    if sub_spelled and case["idx"] % 5 in (2, 3):
        # the same subgrid with its upper limits counted from the far edge (negative values, as examples/lakselus writes them); the grids are not square
        sub_spelled = [sub_spelled[0], sub_spelled[1] - imax, sub_spelled[2], sub_spelled[3] - jmax]
    run = dict(start=start, stop=str(tadd(start, sg * nsteps * dt)), dt=dt, reversed=rev, advection=case["scheme"], diffusion=case["diffusion"], subgrid=sub_spelled,
               release=dict(columns=relcols, rows=relrows, header=True),
               ibm=dict(module=C.REC_IBM, kill=kill, deactivate=deact, log=False),
               output=dict(period=dt * 2, layout=case["layout"]))
    if case.get("warm") and not case.get("all_die"):
        run["ibm"]["kill_time"] = kill_time
        # one particle is switched off before the restart record; `active` is part of the output so that the restart can carry it on
        run["ibm"]["deactivate_time"] = {str(tadd(start, sg * 1 * dt)): [1]}
    if case.get("warm") and not case.get("all_die"):
        run["output"] = dict(period=dt * 2, layout="sparse", numrec=3, instance=dict(pid="i4", X="f8", Y="f8", Z="f8", active="i1"))
    return dict(world=w, run=run), M, (xlo, xhi, ylo, yhi), near_rim


def install_tracker_monitor(hk: Hooks, M, box, dt: float, dx: float, dy: float, V: list, sit: dict, cnt: dict, desc: dict, extra_after=None):
    """Hooks on the real Tracker implementing the transition oracle and the per-step invariants."""
    from ladim.tracker import Tracker  # noqa: PLC0415

    xlo, xhi, ylo, yhi = box
    spy: dict[str, Any] = {}

    def bump(k, v=1):
        sit[k] = sit.get(k, 0) + int(v)

    def after_adv(tok, res, self, X, Y, Z, force):
        spy["adv"] = (np.array(res[0], float).copy(), np.array(res[1], float).copy())

    def after_diff(tok, res, self, num_particles):
        spy["diff"] = (np.array(res[0], float).copy(), np.array(res[1], float).copy())

    dead_pids: set[int] = set()
    dead_at: dict[int, int] = {}  # pid -> model step during which it was first seen dead
    hk.dead_at = dead_at

    def before_upd(self):
        st = self.modules["state"]
        spy.clear()
        # nobody who was seen dead (killed at the boundary, or by the IBM) may be alive again when the next move starts
        if dead_pids and len(st.pid) and len(V) <= 3:
            back = [int(p) for p, a in zip(st.pid, st.alive) if a and int(p) in dead_pids]
            if back:
                V.append(C.viol(f"step {int(self.modules['time'].step)}: pids {back[:8]} were dead after an earlier step and are alive in the state again", **desc))
        return dict(X=st.X.copy(), Y=st.Y.copy(), alive=np.array(st.alive, bool).copy(), active=np.array(st.active, bool).copy(), pid=st.pid.copy(),
                    step=int(self.modules["time"].step))

    def after_upd(tok, res, self):
        st = self.modules["state"]
        if len(V) > 3:
            return
        X0, Y0 = tok["X"], tok["Y"]
        n = len(X0)
        bump("tracker_updates")
        if n == 0:
            return
        if len(st.X) != n or np.any(st.pid != tok["pid"]):
            V.append(C.viol("Tracker.update changed the particle list", **desc))
            return
        U = np.zeros(n)
        Vv = np.zeros(n)
        if any(len(spy[k][0]) != n for k in spy):
            # the scheme returned velocities for a different number of particles: the oracle cannot classify this step
            bump("unclassifiable_steps")
            return
        if "adv" in spy:
            U = U + spy["adv"][0]
            Vv = Vv + spy["adv"][1]
        if "diff" in spy:
            U = U + spy["diff"][0]
            Vv = Vv + spy["diff"][1]
        TX = X0 + U * dt / dx
        TY = Y0 + Vv * dt / dy
        inside = (xlo < TX) & (TX < xhi) & (ylo < TY) & (TY < yhi)
        inactive0 = ~tok["active"]
        Xn, Yn = np.asarray(st.X), np.asarray(st.Y)
        alive_n, active_n = np.asarray(st.alive, bool), np.asarray(st.active, bool)
        moved_to_target = (np.abs(Xn - TX) <= 1e-12) & (np.abs(Yn - TY) <= 1e-12)
        unmoved = (Xn == X0) & (Yn == Y0)
        finiteT = np.isfinite(TX) & np.isfinite(TY)
        step = tok["step"]
        # 1. target outside the valid region => dead, inactive, unmoved
        out = ~inside | ~finiteT
        bad = out & (alive_n | active_n | ~unmoved)
        if np.any(bad):
            k = int(np.nonzero(bad)[0][0])
            V.append(C.viol(f"step {step}: pid {tok['pid'][k]} at ({X0[k]:.6f},{Y0[k]:.6f}) had a target ({TX[k]:.6f},{TY[k]:.6f}) outside the valid region but is "
                            f"alive={bool(alive_n[k])} active={bool(active_n[k])} at ({Xn[k]:.6f},{Yn[k]:.6f})", **desc))
            return
        bump("killed_at_boundary", int(np.sum(out & tok["alive"])))
        # 2. inactive before => unmoved
        bad = inactive0 & ~unmoved
        if np.any(bad):
            k = int(np.nonzero(bad)[0][0])
            V.append(C.viol(f"step {step}: inactive pid {tok['pid'][k]} moved from ({X0[k]:.6f},{Y0[k]:.6f}) to ({Xn[k]:.6f},{Yn[k]:.6f})", **desc))
            return
        bump("inactive_held", int(np.sum(inactive0 & tok["alive"] & inside)))
        # 3. target in a land cell => unmoved (and still alive if it was)
        ok = inside & ~inactive0 & finiteT
        tj = np.clip(np.round(TY).astype(int), 0, M.shape[0] - 1)
        ti = np.clip(np.round(TX).astype(int), 0, M.shape[1] - 1)
        land = ok & (M[tj, ti] < 1)
        bad = land & (~unmoved | (tok["alive"] & ~alive_n))
        if np.any(bad):
            k = int(np.nonzero(bad)[0][0])
            V.append(C.viol(f"step {step}: pid {tok['pid'][k]} target ({TX[k]:.6f},{TY[k]:.6f}) is a land cell but the particle is at ({Xn[k]:.6f},{Yn[k]:.6f}) "
                            f"alive={bool(alive_n[k])} (was at ({X0[k]:.6f},{Y0[k]:.6f}))", **desc))
            return
        bump("cancelled_by_land", int(np.sum(land & tok["alive"])))
        # 4. otherwise moved exactly to the target
        free = ok & ~land
        bad = free & ~moved_to_target
        if np.any(bad):
            k = int(np.nonzero(bad)[0][0])
            V.append(C.viol(f"step {step}: pid {tok['pid'][k]} should have moved from ({X0[k]:.6f},{Y0[k]:.6f}) to ({TX[k]:.8f},{TY[k]:.8f}) (open water) but is at "
                            f"({Xn[k]:.8f},{Yn[k]:.8f})", **desc))
            return
        bump("moved", int(np.sum(free & tok["alive"])))
        bump("dead_in_state_processed", int(np.sum(~tok["alive"])))
        # invariants after the step
        if np.any(alive_n & ~tok["alive"]):
            k = int(np.nonzero(alive_n & ~tok["alive"])[0][0])
            V.append(C.viol(f"step {step}: dead pid {tok['pid'][k]} became alive again", **desc))
            return
        a = alive_n
        cj = np.clip(np.round(Yn).astype(int), 0, M.shape[0] - 1)
        ci = np.clip(np.round(Xn).astype(int), 0, M.shape[1] - 1)
        bad = a & (~np.isfinite(Xn) | ~np.isfinite(Yn) | ~((xlo < Xn) & (Xn < xhi) & (ylo < Yn) & (Yn < yhi)) | (M[cj, ci] < 1))
        if np.any(bad):
            k = int(np.nonzero(bad)[0][0])
            V.append(C.viol(f"step {step}: living pid {tok['pid'][k]} is at ({Xn[k]},{Yn[k]}): not a finite position in a sea cell of the valid region "
                            f"[{xlo},{xhi}]x[{ylo},{yhi}]", **desc))
            return
        cnt["particle_steps_classified"] = cnt.get("particle_steps_classified", 0) + n
        dead_pids.update(int(p) for p, a_ in zip(tok["pid"], alive_n) if not a_)
        for p, a_ in zip(tok["pid"], alive_n):
            if not a_:
                dead_at.setdefault(int(p), tok["step"])
        if extra_after is not None:
            extra_after(tok, self)

    for name in ("EF", "RK2", "RK4"):
        hk.wrap(Tracker, name, None, after_adv)
    hk.wrap(Tracker, "diffuse", None, after_diff)
    hk.wrap(Tracker, "update", before_upd, after_upd)
    # particles killed by the IBM (after the move) count as dead from the end of the model step on
    from ladim.model import Model  # noqa: PLC0415

    def after_model_update(tok, res, self):
        st = self.state
        dead_pids.update(int(p) for p, a_ in zip(st.pid, st.alive) if not a_)
        for p, a_ in zip(st.pid, st.alive):
            if not a_:
                dead_at.setdefault(int(p), int(self.timer.step))

    hk.wrap(Model, "update", None, after_model_update)
    return dead_pids


def check_pid_sets(recs, V: list, sit: dict, desc: dict) -> None:
    gone: set[int] = set()
    prev: set[int] = set()
    seen: set[int] = set()
    for r in recs:
        cur = {int(p) for p in r.pid}
        outcheck.check_record_pids(r, V)
        back = cur & gone
        if back:
            V.append(C.viol(f"record at {r.time}: pids {sorted(back)[:10]} reappear after having disappeared from an earlier record", **desc))
            return
        old_new = (cur - prev) & seen
        if old_new:
            V.append(C.viol(f"record at {r.time}: pids {sorted(old_new)[:10]} are back", **desc))
            return
        gone |= prev - cur
        seen |= cur
        prev = cur
        sit["records_checked"] = sit.get("records_checked", 0) + 1


def run_case(case: dict[str, Any], wd: Path) -> dict[str, Any]:
    scn, M, box, near_rim = build(case)
    V: list = []
    sit: dict[str, int] = {}
    cnt: dict[str, int] = {}
    desc = dict(scheme=case["scheme"], diffusion=case["diffusion"], subgrid=case["subgrid"], mask_kind=case["mask_kind"], layout=case["layout"], idx=case["idx"])
    packed = bool(case["idx"] % 4 == 1 and case["layout"] == "sparse" and "instance" not in scn["run"]["output"])
    if packed:
        # positions stored packed (integer type + scale_factor, as in examples/killer/dense.yaml): the record must still report every particle in the cell it is in
        scn["run"]["output"]["instance"] = dict(pid="i4", X=dict(datatype="i4", scale_factor=1.0e-4), Y=dict(datatype="i4", scale_factor=1.0e-4), Z="f8")
    if case["idx"] % 6 == 0 and case["land"] and not case.get("warm"):
        # history: an earlier run in this process used files of the same names that had no land at all
        import shutil  # noqa: PLC0415

        pre_scn = build(dict(case, land=[]))[0]
        pre, _cp, _wp = run_scenario(pre_scn, wd)
        for f_ in pre.outputs:
            Path(f_).unlink(missing_ok=True)
        sit["earlier_run_on_files_of_the_same_names_without_land"] = int(pre.ok)
        if not pre.ok:
            shutil.rmtree(wd / "world", ignore_errors=True)
    snaps: list[dict[str, Any]] = []
    with Hooks() as hk:
        install_tracker_monitor(hk, M, box, float(case["dt"]), case["dx"], case["dx"], V, sit, cnt, desc)
        from vmon import outcheck  # noqa: PLC0415

        outcheck.snapshot_hook(hk, snaps)
        res, conf, world = run_scenario(scn, wd)
        cnt["Tracker.update calls"] = hk.counts["Tracker.update"]
        dead_at = dict(hk.dead_at)
    sit[f"scheme_{case['scheme']}"] = 1
    sit["diffusion_on"] = int(case["diffusion"] > 0)
    sit["release_near_rim"] = near_rim
    sit["subgrid"] = int(case["subgrid"] is not None)
    sit["subgrid_upper_limits_negative_on_a_non_square_grid"] = int(bool(scn["run"].get("subgrid")) and scn["run"]["subgrid"][1] < 0 and case["imax"] != case["jmax"])
    sit["dense"] = int(case["layout"] == "dense")
    sit["one_cell_channel"] = int(case["mask_kind"] in (1, 3))
    sit["release_event_adding_nobody"] = int(case["idx"] % 2 == 0)
    sit["reversed_time"] = int(bool(case.get("reversed")))
    sit["lonlat_release_on_off_diagonal_subgrid"] = int("lon" in scn["run"]["release"]["columns"])
    sit["move_ending_exactly_on_a_land_cell_edge"] = int(bool(case.get("tie")))
    if not res.ok:
        V.append(C.viol(f"run did not complete: {res.exc}", tb=res.tb[-1500:], **desc))
    else:
        recs = all_records(read_outputs(res.outputs))
        check_pid_sets(recs, V, sit, desc)
        # a particle seen dead (state hook) during model step s is in no record of a later step
        t0 = np.datetime64(scn["run"]["start"], "s")
        for r in recs:
            k = abs(int((r.time - t0) / np.timedelta64(1, "s"))) // int(case["dt"])
            late = sorted(int(p) for p in r.pid if dead_at.get(int(p), 10**9) < k)
            if late:
                V.append(C.viol(f"record of step {k} ({r.time}) holds pids {late[:8]} that were dead in the state since step {dead_at[late[0]]}", **desc))
                break
            sit["records_checked_against_deaths"] = sit.get("records_checked_against_deaths", 0) + int(any(v < k for v in dead_at.values()))
            if len(r.pid) == 0 and any(v < k for v in dead_at.values()):
                sit["record_after_everybody_died"] = sit.get("record_after_everybody_died", 0) + 1
        if case.get("warm") and not case.get("all_die") and len(res.outputs) > 1 and not V:
            # the dead stay dead across a restart: warm start from the first file, nobody who was dead by then may show up again
            run2 = dict(scn["run"], warm_start=dict(filename=str(res.outputs[0]), variables=[]))
            run2["output"] = dict(scn["run"]["output"], filename="out_001.nc")
            with Hooks() as hk2:
                install_tracker_monitor(hk2, M, box, float(case["dt"]), case["dx"], case["dx"], V, sit, cnt, desc)
                res2, _c2, _w2 = run_scenario(dict(world=None, run=run2), wd / "warm", world=world)
            if not res2.ok:
                V.append(C.viol(f"warm-started continuation did not complete: {res2.exc}", tb=res2.tb[-1200:], **desc))
            else:
                recs2 = all_records(read_outputs(res2.outputs))
                k_restart = 4
                dead_before = {p for p, s_ in dead_at.items() if s_ < k_restart}
                sit["warm_start_records_checked_against_earlier_deaths"] = len(recs2) * int(bool(dead_before))
                # inactive particles are not moved horizontally - also not after the restart
                last0 = read_outputs(res.outputs[:1])[0].records[-1]
                held = {int(p_): (float(x_), float(y_)) for p_, x_, y_, a_ in zip(last0.pid, last0.vars["X"], last0.vars["Y"], last0.vars["active"]) if not a_}
                sit["inactive_particles_followed_over_the_restart"] = len(held)
                for r in recs2:
                    for p_, x_, y_ in zip(r.pid, r.vars["X"], r.vars["Y"]):
                        if int(p_) in held and (float(x_), float(y_)) != held[int(p_)] and len(V) < 3:
                            V.append(C.viol(f"after a warm start from {res.outputs[0].name}: pid {int(p_)}, inactive in the restart record at {held[int(p_)]}, is at ({float(x_)},{float(y_)}) "
                                            f"in the record at {r.time}", **desc))
                for r in recs2:
                    back = sorted(set(int(p) for p in r.pid) & dead_before)
                    if back:
                        V.append(C.viol(f"after a warm start from {res.outputs[0].name}: record at {r.time} holds pids {back[:8]}, which were dead before the restart "
                                        f"(pid {back[0]} since step {dead_at[back[0]]})", **desc))
                        break
        xlo, xhi, ylo, yhi = box
        if len(snaps) == len(recs) and not V:
            # the cell a record reports a particle in is the cell the state had it in when the record was written (positions nearer than the storage
            # resolution to a cell edge are not judged)
            res_ = 1.0e-4 if packed else 1.0e-9
            for r, sn in zip(recs, snaps):
                if len(r.pid) != len(sn["alive_pids"]) or np.any(np.asarray(r.pid) != sn["alive_pids"]):
                    continue  # the particle sets of the records are judged above and by C06
                for nm in ("X", "Y"):
                    a, b = np.asarray(sn["inst"][nm], float), np.asarray(r.vars[nm], float)
                    clear = np.abs(a - np.floor(a) - 0.5) > res_
                    cnt["record_cells_compared_with_the_state"] = cnt.get("record_cells_compared_with_the_state", 0) + int(clear.sum())
                    if packed:
                        sit["packed_positions_in_records_compared_with_the_state"] = sit.get("packed_positions_in_records_compared_with_the_state", 0) + int(clear.sum())
                    bad = clear & (np.round(a) != np.round(b))
                    if np.any(bad) and len(V) < 2:
                        j = int(np.nonzero(bad)[0][0])
                        V.append(C.viol(f"record at {r.time} reports pid {int(r.pid[j])} at {nm}={b[j]!r} (cell {int(np.round(b[j]))}), the state had it at {nm}={a[j]!r} (cell {int(np.round(a[j]))})"
                                        + (" [positions stored packed, scale_factor 1e-4]" if packed else ""), **desc))
        for r in recs:
            X, Y = np.asarray(r.vars["X"]), np.asarray(r.vars["Y"])
            if packed and len(X):  # not judged nearer than the storage resolution to a cell edge or to the rim
                keep = (np.abs(X - np.floor(X) - 0.5) > 1.0e-4) & (np.abs(Y - np.floor(Y) - 0.5) > 1.0e-4) & (X > xlo + 1e-4) & (X < xhi - 1e-4) & (Y > ylo + 1e-4) & (Y < yhi - 1e-4)
                X, Y = X[keep], Y[keep]
            if len(X) and (np.any(~np.isfinite(X)) or np.any((X <= xlo) | (X >= xhi) | (Y <= ylo) | (Y >= yhi))
                           or np.any(M[np.round(Y).astype(int), np.round(X).astype(int)] < 1)):
                V.append(C.viol(f"record at {r.time} holds a particle outside the valid region or on land", **desc))
                break
    nontrivial = sit.get("cancelled_by_land", 0) + sit.get("killed_at_boundary", 0) + sit.get("inactive_held", 0) > 0
    key = str({k: v for k, v in case.items() if k not in ("land",)})
    if sit.get("unclassifiable_steps") and not V:
        return C.result(V, sit, cnt, nontrivial=False, key=key, sample=desc,
                        inconclusive=f"{sit['unclassifiable_steps']} tracker steps could not be classified: the advection scheme returned velocities for a different number of particles than the state holds")
    sample = dict(grid=[case["imax"], case["jmax"]], subgrid=case["subgrid"], land_cells=len(case["land"]), scheme=case["scheme"], diffusion=case["diffusion"],
                  flow=case["flow"], steps=case["nsteps"], observed={k: sit.get(k, 0) for k in ("moved", "cancelled_by_land", "killed_at_boundary", "inactive_held")})
    return C.result(V[:3], sit, cnt, nontrivial=nontrivial, key=key, sample=sample)
