"""C11 Random-walk diffusion has the configured variance and no bias.

Statistical monitor on the real Tracker.update in still water on a uniform grid: displacements of a point cloud
are compared with fixed, wide (6 sigma) bands around the configured moments.  The tracker's rng is seeded by the
harness (seed recorded in the evidence) so that every verdict is replayable."""

from __future__ import annotations

from pathlib import Path
from typing import Any

import numpy as np

from vmon import common as C
from vmon.scenario import tadd

LEVEL = "exploration"
TECHNIQUE = "runtime monitoring: statistical monitor (sample mean, variance, cross-covariance, lag-1 and neighbour correlation, linear variance growth, parameter scaling) on displacements produced by the real Tracker.update, 6-sigma bands, fixed seeds"
LEVEL_TEXT = ("Clouds of 10^4-10^6 particles are stepped 1-50 times by the real Tracker in still water for D in 1e-3..1e2, Dz in 1e-6..1e-2, dt in 10..3600 s, dx,dy in 50..20000 m; "
              "per-step and accumulated displacement moments must lie within 6 sampling standard deviations of 0 resp. 2*D*dt/dx^2 (2*Dz*dt). With D = Dz = 0 the rng must never be consulted "
              "and two runs must be identical.")
LEVEL_NOTE = "Restated as bounded statistics: moments and independence only (no normality test). A 6-sigma band with 1e5 particles is +-2.7 % on the variance: false alarms at the 1e-8 level per test, factor-2/unit errors far outside."
RULE = ("case = (D, Dz, dt, dx, dy, steps, cloud size, seed). Non-trivial: D > 0 or Dz > 0 with at least 2 steps (independence across steps observable); distinct by parameters.")
MANDATORY = ["e2e_coefficient_written_as_a_whole_number", "e2e_grid_module_ROMS2", "time_step_longer_than_a_day", "restarted_run_step_independence_tests", "restarted_run_total_variance_tests", "records_of_a_later_configuration_without_coefficients", "e2e_version_1_configuration", "e2e_row_dependent_spacing_subgrid_off_diagonal", "coefficients_of_1e-8_or_less", "few_particle_series_tests", "particles_in_state_1", "particles_in_state_2", "horizontal_variance_tests", "vertical_variance_tests", "mean_tests", "cross_covariance_tests", "lag1_tests", "neighbour_tests", "growth_tests",
             "zero_diffusion_deterministic", "anisotropic_grid", "rng_seeded_by_harness", "e2e_variance_tests", "horizontal_vertical_covariance_tests", "varying_metric_variance_tests", "vertical_advection_with_diffusion_tests"]
ASSUMPTIONS = ["still water, uniform metric, no boundaries reached (grid and water column far larger than the cloud)"]
TIMEOUT = {"quick": 900, "thorough": 3400}
KSIG = 6.0


class UGrid:
    """Collaborator for the direct drive: unbounded uniform grid."""

    def __init__(self, dx, dy, depth=1.0e7):
        self.xmin, self.xmax, self.ymin, self.ymax = -1e12, 1e12, -1e12, 1e12
        self.dx, self.dy, self.h = dx, dy, depth

    def metric(self, X, Y):
        return np.full(len(X), self.dx), np.full(len(X), self.dy)

    def depth(self, X, Y):
        return np.full(len(X), self.h)

    def ingrid(self, X, Y):
        return np.ones(len(X), bool)

    def atsea(self, X, Y):
        return np.ones(len(X), bool)


class VGrid(UGrid):
    """Unbounded grid whose spacing varies from cell to cell (dx along x, dy along y)."""

    def __init__(self, dx, dy, depth=1.0e7):
        super().__init__(dx, dy, depth)

    def _dx(self, X):
        return self.dx * (1.0 + 0.45 * np.sin(0.9 * np.round(X)))

    def _dy(self, Y):
        return self.dy * (1.0 + 0.45 * np.cos(0.7 * np.round(Y)))

    def metric(self, X, Y):
        return self._dx(np.asarray(X)), self._dy(np.asarray(Y))


class NoForce:
    def __init__(self, w=None, n=0):
        self.variables = {} if w is None else dict(w=np.full(n, float(w)))

    def velocity(self, X, Y, Z, fractional_step=0, method="bilinear"):
        return np.zeros(len(X)), np.zeros(len(X))


class ForbiddenRNG:
    def __getattr__(self, name):
        raise AssertionError(f"rng.{name} consulted although D = Dz = 0")


def gen_cases(tier: str, seed: int) -> list[dict[str, Any]]:
    cases = []
    n = 24 if tier == "quick" else 1500
    for i in range(n):
        rng = C.rng_for(seed, 11, i)
        D = float(10 ** rng.uniform(-3, 2))
        Dz = float(10 ** rng.uniform(-6, -2))
        if i % 5 == 4:
            D, Dz = 0.0, 0.0
        elif i % 5 == 3:
            D = 0.0
        elif i % 5 == 2:
            Dz = 0.0
        dx = float(rng.choice([50.0, 800.0, 4000.0, 20000.0]))
        cases.append(dict(idx=i, rngseed=int(seed * 100003 + i), D=D, Dz=Dz, dt=int(rng.choice([10, 60, 600, 3600, 90000, 129600])), dx=dx,  # also time steps of more than a day
                          dy=dx * float(rng.choice([1.0, 1.0, 0.5, 2.5])), steps=int(rng.choice([1, 2, 5, 20, 50])),
                          n=int(rng.choice([10**4, 10**5, 3 * 10**5])) if tier == "quick" else int(rng.choice([10**4, 10**5, 10**6])),
                          advection=str(rng.choice(["", "EF"])), varying_metric=bool(i % 3 == 1), w=float(rng.choice([-1.0e-3, 2.0e-3])) if i % 4 == 0 else None))
        if cases[-1]["varying_metric"]:
            # random step comparable to the cell size and several steps: the cloud wanders through cells of different spacing
            c = cases[-1]
            c["D"] = float(rng.uniform(0.15, 0.6)) * min(c["dx"], c["dy"]) ** 2 / (2 * c["dt"])
            c["steps"] = int(rng.integers(5, 12))
            c["n"] = min(c["n"], 10**5)
    # very small coefficients (molecular diffusivity, weak vertical mixing) on fine grids: "all D, Dz over several orders of magnitude"
    for i in range(4 if tier == "quick" else 200):
        rng = C.rng_for(seed, 113, i)
        dx = float(rng.choice([0.01, 0.05, 0.5]))
        cases.append(dict(idx=3 * 10**5 + i, rngseed=int(seed * 1299709 + i), D=float([1.0e-9, 5.0e-9, 1.0e-8, 2.0e-9][i % 4]), Dz=float([5.0e-9, 1.0e-9, 2.0e-9, 1.0e-8][i % 4]),
                          dt=int(rng.choice([3600, 86400])), dx=dx, dy=dx, steps=3, n=10**5, advection=str(rng.choice(["", "EF"])), varying_metric=False, w=None, tiny=True))
    # very few particles followed over many steps: the variance and the independence are properties of every single particle, not of a large cloud
    for i in range(6 if tier == "quick" else 300):
        rng = C.rng_for(seed, 112, i)
        dx = float(rng.choice([50.0, 800.0, 4000.0]))
        dt = int(rng.choice([60, 600]))
        cases.append(dict(kind="few", idx=2 * 10**5 + i, rngseed=int(seed * 104729 + i), n=[1, 2, 3][i % 3], steps=4000, dt=dt, dx=dx, dy=dx * float(rng.choice([1.0, 2.0])),
                          D=float(rng.uniform(0.01, 0.2)) * dx * dx / (2 * dt) * 1e-3, Dz=float(10 ** rng.uniform(-5, -3)), advection=str(rng.choice(["", "EF"]))))
    # end to end: ladim.main on a still-water ROMS file, rng seeded by the harness (hook on Tracker.__init__)
    for i in range(6 if tier == "quick" else 200):
        rng = C.rng_for(seed, 111, i)
        dx = float(rng.choice([100.0, 800.0, 4000.0]))
        dt = int(rng.choice([60, 600]))
        cases.append(dict(kind="e2e", idx=10**5 + i, rngseed=int(seed * 7919 + i), D=float(rng.uniform(0.02, 0.6)) * dx * dx / (2 * dt), dt=dt, dx=dx,
                          dy=dx * float(rng.choice([1.0, 0.8, 1.6])), steps=int(rng.integers(2, 6)), n=20000))
    for i in range(2 if tier == "quick" else 40):
        rng = C.rng_for(seed, 112, i)
        dx = float(rng.choice([100.0, 800.0, 4000.0]))
        dt = int(rng.choice([60, 600]))
        cases.append(dict(kind="seq", idx=3 * 10**5 + i, D=float(rng.uniform(0.02, 0.3)) * dx * dx / (2 * dt), Dz=float(rng.uniform(0.2, 1.0)) / (2 * dt), dt=dt, dx=dx,
                          steps_a=int(rng.integers(2, 5)), steps_b=int(rng.integers(2, 5)), n=20000))
    return cases


def run_seq(case: dict[str, Any], wd: Path) -> dict[str, Any]:
    """One process, ladim's own generator (nothing seeded by the harness): a run with D, Dz > 0, its warm-started continuation, then a run whose
    configuration leaves the coefficients out (documented default 0)."""
    from vmon.scenario import all_records, read_outputs, run_scenario  # noqa: PLC0415

    D, Dz, dt, dx, n, sa, sb = case["D"], case["Dz"], case["dt"], case["dx"], case["n"], case["steps_a"], case["steps_b"]
    V: list = []
    sit: dict[str, int] = {}
    cnt: dict[str, int] = {}
    desc = dict(kind="seq", D=D, Dz=Dz, dt=dt, dx=dx, steps_before_restart=sa, steps_after_restart=sb, n=n)
    end = str(tadd(C.T0, dt * (sa + sb + 1)))
    w = C.still_world(C.T0, end, imax=60, jmax=60, N=2, metric=dict(kind="uniform", dx=dx, dy=dx))
    rel = dict(columns=["release_time", "mult", "X", "Y", "Z"], rows=[[C.T0, n, 30.0, 30.0, 50.0]], header=True)
    run1 = dict(start=C.T0, stop=str(tadd(C.T0, dt * (sa + 1))), dt=dt, advection="EF", diffusion=D, vertdiff=Dz, release=rel, output=dict(period=dt, filename="leg1.nc"))
    res1, _c1, world = run_scenario(dict(world=w, run=run1), wd)
    if not res1.ok:
        V.append(C.viol(f"diffusion run did not complete: {res1.exc}", tb=res1.tb[-1200:], **desc))
        return C.result(V, sit, cnt, nontrivial=True, key=str(desc), sample=desc)
    rec1 = all_records(read_outputs(res1.outputs))
    run2 = dict(run1, stop=end, warm_start=dict(filename=str(res1.outputs[0]), variables=[]), output=dict(period=dt, filename="leg2.nc"))
    res2, _c2, _w = run_scenario(dict(world=None, run=run2), wd, conf_name="leg2.yaml", world=world)
    if not res2.ok:
        V.append(C.viol(f"warm-started continuation of the diffusion run did not complete: {res2.exc}", tb=res2.tb[-1200:], **desc))
        return C.result(V, sit, cnt, nontrivial=True, key=str(desc), sample=desc)
    rec2 = all_records(read_outputs(res2.outputs))
    a, b = rec1[-1], rec2[-1]
    if len(a.pid) == n and len(b.pid) == n and b.time > a.time:
        k2 = int((b.time - a.time) / np.timedelta64(1, "s")) // dt
        for name, x0, s2 in (("X", 30.0, 2 * D * dt / dx**2), ("Y", 30.0, 2 * D * dt / dx**2), ("Z", 50.0, 2 * Dz * dt)):
            d1 = np.asarray(a.vars[name], float) - x0
            d2 = np.asarray(b.vars[name], float) - np.asarray(a.vars[name], float)
            r = float(np.corrcoef(d1, d2)[0, 1])
            sit["restarted_run_step_independence_tests"] = sit.get("restarted_run_step_independence_tests", 0) + 1
            if not abs(r) <= KSIG / np.sqrt(n):
                V.append(C.viol(f"{name} displacements before and after a warm start are correlated (r = {r:.4f}, n = {n}): the steps of the continued simulation repeat the random "
                                f"numbers of the first part", **desc))
            v = float((d1 + d2).var(ddof=1))
            tot = (sa + k2) * s2
            sit["restarted_run_total_variance_tests"] = sit.get("restarted_run_total_variance_tests", 0) + 1
            if not abs(v - tot) <= KSIG * tot * np.sqrt(2.0 / (n - 1)):
                V.append(C.viol(f"after {sa} + {k2} steps (warm start in between) var({name}) = {v:.6g}, a random walk gives {tot:.6g} (ratio {v / tot:.4f})", **desc))
    # third configuration in the same process: coefficients left out -> documented default 0 -> nothing moves in still water
    rel3 = dict(rel, rows=[[C.T0, 50, 30.0, 30.0, 50.0]])
    run3 = dict(start=C.T0, stop=str(tadd(C.T0, dt * 4)), dt=dt, advection="EF", release=rel3, output=dict(period=dt, filename="third.nc"))
    res3, _c3, _w3 = run_scenario(dict(world=None, run=run3), wd, conf_name="third.yaml", world=world)
    if not res3.ok:
        V.append(C.viol(f"run without diffusion coefficients did not complete: {res3.exc}", tb=res3.tb[-1200:], **desc))
    else:
        for r in all_records(read_outputs(res3.outputs)):
            sit["records_of_a_later_configuration_without_coefficients"] = sit.get("records_of_a_later_configuration_without_coefficients", 0) + 1
            moved = [nm for nm, x0 in (("X", 30.0), ("Y", 30.0), ("Z", 50.0)) if np.any(np.asarray(r.vars[nm]) != x0)]
            if moved:
                V.append(C.viol(f"a configuration that leaves the diffusion coefficients out (default 0), run after one with D = {D:.4g}, Dz = {Dz:.4g} in the same process: "
                                f"{moved} changed in still water by the record at {r.time} (std of X {float(np.std(r.vars['X'])):.4g} cells)", **desc))
                break
    return C.result(V[:3], sit, cnt, nontrivial=True, key=str(desc), sample=desc)


def run_e2e(case: dict[str, Any], wd: Path) -> dict[str, Any]:
    from ladim.tracker import Tracker  # noqa: PLC0415

    from vmon.hooks import Hooks  # noqa: PLC0415
    from vmon.scenario import all_records, read_outputs, run_scenario  # noqa: PLC0415

    D, dt, dx, dy, steps, n = case["D"], case["dt"], case["dx"], case["dy"], case["steps"], case["n"]
    if case["idx"] % 6 == 0:
        dy = dx  # these cases run with ladim.ROMS2, whose metric() is written for conformal grids (one spacing for both directions)
    V: list = []
    sit: dict[str, int] = {}
    cnt: dict[str, int] = {}
    w = C.still_world(C.T0, str(tadd(C.T0, dt * (steps + 1))), imax=60, jmax=60, N=2, metric=dict(kind="uniform", dx=dx, dy=dy))
    eta = bool(case["idx"] % 2)
    sub = None
    if eta:
        # grid spacing growing from row to row, loaded through a subgrid with i0 != j0: only the first step is judged (start row 30: spacing x 2.2),
        # with a step small enough for the cloud to stay in that row
        w["metric"] = dict(kind="eta_linear", dx=dx, dy=dy, slope=0.04)
        sub = [[2, 58, 10, 55], [12, 57, 3, 58]][(case["idx"] // 2) % 2]
        D = 0.5 * (0.15 * 2.2 * min(dx, dy)) ** 2 / dt
        dx, dy = 2.2 * dx, 2.2 * dy
        sit["e2e_row_dependent_spacing_subgrid_off_diagonal"] = 1
    run = dict(start=C.T0, stop=str(tadd(C.T0, dt * (steps + 1))), dt=dt, advection="EF", diffusion=D, subgrid=sub,
               release=dict(columns=["release_time", "mult", "X", "Y", "Z"], rows=[[C.T0, n, 30.0, 30.0, 5.0]], header=True), output=dict(period=dt))
    v1mode = bool(case["idx"] % 3 == 2)
    outfile: list = []
    roms2 = bool(case["idx"] % 6 == 0 and not eta)  # the documented alternative grid/forcing module (adaptive subgrid), which has its own metric()
    if case["idx"] % 6 == 4 and not eta:
        # the coefficient written without a decimal point (diffusion: 12), as a user would in a YAML/TOML file
        D = int(min(max(1, round(D)), 0.5 * (0.7 * min(dx, dy)) ** 2 / dt)) or 1
        run["diffusion"] = D
        sit["e2e_coefficient_written_as_a_whole_number"] = 1

    def tweak(conf):
        if roms2:
            conf["grid"]["module"] = "ladim.ROMS2"
            conf["forcing"]["module"] = "ladim.ROMS2"
            conf["grid"].pop("subgrid", None)
        if v1mode:  # the same run described by a legacy (version 1) configuration file: the coefficient sits in numerics.diffusion
            from vmon.scenario import to_v1  # noqa: PLC0415

            v1 = to_v1(conf)
            outfile.append(v1["files"]["output_file"])
            conf.clear()
            conf.update(v1)

    with Hooks() as hk:
        hk.wrap(Tracker, "__init__", None, lambda tok, res, self, *a, **k: setattr(self, "rng", np.random.default_rng(case["rngseed"])))
        res, conf, world = run_scenario(dict(world=w, run=run), wd, tweak=tweak)
    if roms2:
        sit["e2e_grid_module_ROMS2"] = 1
    if v1mode:
        res.outputs = [Path(outfile[0])]
        sit["e2e_version_1_configuration"] = 1
    desc = dict(kind="e2e", D=D, dt=dt, dx=dx, dy=dy, steps=steps, n=n, rngseed=case["rngseed"])
    if not res.ok:
        V.append(C.viol(f"end-to-end diffusion run did not complete: {res.exc}", tb=res.tb[-1200:], **desc))
        return C.result(V, sit, cnt, nontrivial=True, key=str(desc), sample=desc)
    recs = all_records(read_outputs(res.outputs))
    for k, r in enumerate(recs[1:], start=1):
        if eta and k > 1:
            break
        if len(r.pid) != n:
            sig_ = float(np.sqrt(2 * D * dt * k)) / min(dx, dy)
            if sig_ * 8 < 15.0:
                # the nearest open boundary is more than 15 cells and more than 8 standard deviations away: nobody can have got there
                V.append(C.viol(f"end to end: after {k} steps only {len(r.pid)} of {n} particles are left in a cloud whose random walk has a standard deviation of {sig_:.3g} cells "
                                f"(released 18 cells or more from the open boundary)", **desc))
            break  # somebody reached the boundary: the cloud is no longer a free random walk
        for name, d in (("X", dx), ("Y", dy)):
            x = np.asarray(r.vars[name]) - 30.0
            s2 = 2 * D * dt * k / d**2
            v = float(x.var(ddof=1))
            sit["e2e_variance_tests"] = sit.get("e2e_variance_tests", 0) + 1
            if abs(v - s2) > KSIG * s2 * np.sqrt(2.0 / (n - 1)) or abs(float(x.mean())) > KSIG * np.sqrt(s2 / n):
                V.append(C.viol(f"end to end: after {k} steps the cloud has var({name}) = {v:.6g} cells^2 and mean {float(x.mean()):.3g}; a random walk with D = {D:.4g} gives {s2:.6g} "
                                f"(ratio {v / s2:.4f})", **desc))
    return C.result(V[:3], sit, cnt, nontrivial=True, key=str(desc), sample=dict(desc, records=len(recs)))


def run_few(case: dict[str, Any]) -> dict[str, Any]:
    from ladim.state import State  # noqa: PLC0415
    from ladim.timekeeper import TimeKeeper  # noqa: PLC0415
    from ladim.tracker import Tracker  # noqa: PLC0415

    D, Dz, dt, dx, dy, steps, n = case["D"], case["Dz"], case["dt"], case["dx"], case["dy"], case["steps"], case["n"]
    timer = TimeKeeper(start=C.T0, stop=str(tadd(C.T0, dt * (steps + 2))), dt=dt)
    state = State()
    modules: dict[str, Any] = dict(time=timer, state=state, grid=UGrid(dx, dy), forcing=NoForce(None, n))
    tr = Tracker(advection=case["advection"], diffusion=D, vertdiff=Dz, modules=modules)
    tr.rng = np.random.default_rng(case["rngseed"])
    state.append(X=np.full(n, 100.0), Y=np.full(n, 200.0), Z=np.full(n, 5.0e6))
    dX, dY, dZ = np.empty((steps, n)), np.empty((steps, n)), np.empty((steps, n))
    for s in range(steps):
        timer.update()
        Xb, Yb, Zb = state.X.copy(), state.Y.copy(), state.Z.copy()
        tr.update()
        dX[s], dY[s], dZ[s] = state.X - Xb, state.Y - Yb, state.Z - Zb
    V: list = []
    sit = {"few_particle_series_tests": 0, f"particles_in_state_{n}": 1}
    desc = dict(kind="few", n=n, steps=steps, D=D, Dz=Dz, dt=dt, dx=dx, dy=dy, rngseed=case["rngseed"])
    band = KSIG * np.sqrt(2.0 / (steps - 1))
    for name, d, s2 in (("X", dX, 2 * D * dt / dx**2), ("Y", dY, 2 * D * dt / dy**2), ("Z", dZ, 2 * Dz * dt)):
        for k in range(n):
            v = float(d[:, k].var(ddof=1))
            m = float(d[:, k].mean())
            sit["few_particle_series_tests"] += 1
            if abs(v - s2) > band * s2 or abs(m) > KSIG * np.sqrt(s2 / steps):
                V.append(C.viol(f"{n} particle(s) in the state, followed over {steps} steps: the {name} displacements of particle {k} have variance {v:.6g} and mean {m:.3g}; "
                                f"configured variance per step {s2:.6g} (ratio {v / s2:.4f})", **desc))
        for a in range(n):
            for b_ in range(a + 1, n):
                r = float(np.corrcoef(d[:, a], d[:, b_])[0, 1]) if d[:, a].std() > 0 and d[:, b_].std() > 0 else 0.0
                sit["few_particle_series_tests"] += 1
                if abs(r) > KSIG / np.sqrt(steps):
                    V.append(C.viol(f"{n} particles in the state: the {name} displacements of particles {a} and {b_} are correlated over {steps} steps (r = {r:.4f})", **desc))
    return C.result(V[:4], sit, {"displacements_observed": 3 * n * steps}, nontrivial=True, key=str(desc), sample=desc)


def run_case(case: dict[str, Any], wd: Path) -> dict[str, Any]:
    if case.get("kind") == "e2e":
        return run_e2e(case, wd)
    if case.get("kind") == "few":
        return run_few(case)
    if case.get("kind") == "seq":
        return run_seq(case, wd)
    from ladim.state import State  # noqa: PLC0415
    from ladim.timekeeper import TimeKeeper  # noqa: PLC0415
    from ladim.tracker import Tracker  # noqa: PLC0415

    D, Dz, dt, dx, dy, steps, n = case["D"], case["Dz"], case["dt"], case["dx"], case["dy"], case["steps"], case["n"]
    V: list = []
    sit: dict[str, int] = {}
    cnt: dict[str, int] = {}

    def make(seed):
        timer = TimeKeeper(start=C.T0, stop=str(tadd(C.T0, dt * (steps + 2))), dt=dt)
        state = State()
        grid = VGrid(dx, dy) if case.get("varying_metric") else UGrid(dx, dy)
        wv = case.get("w")
        modules: dict[str, Any] = dict(time=timer, state=state, grid=grid, forcing=NoForce(wv, n))
        tr = Tracker(advection=case["advection"], diffusion=D, vertdiff=Dz, vertical_advection=wv is not None, modules=modules)
        if D == 0 and Dz == 0:
            tr.rng = ForbiddenRNG()
        else:
            tr.rng = np.random.default_rng(seed)  # the seed hook the property asks for, provided by the harness
        if case.get("varying_metric"):
            r0 = np.random.default_rng(seed + 12345)
            state.append(X=r0.uniform(95.0, 105.0, size=n), Y=r0.uniform(195.0, 205.0, size=n), Z=np.full(n, 5.0e6))
        else:
            state.append(X=np.full(n, 100.0), Y=np.full(n, 200.0), Z=np.full(n, 5.0e6))
        return timer, state, tr

    def bump(k):
        sit[k] = sit.get(k, 0) + 1

    desc = dict(D=D, Dz=Dz, dt=dt, dx=dx, dy=dy, steps=steps, n=n, rngseed=case["rngseed"])
    if case.get("tiny"):
        sit["coefficients_of_1e-8_or_less"] = 1
    if dt > 86400 and (D > 0 or Dz > 0):
        sit["time_step_longer_than_a_day"] = 1
    timer, state, tr = make(case["rngseed"])
    sit["rng_seeded_by_harness"] = 1
    X0, Y0, Z0 = state.X.copy(), state.Y.copy(), state.Z.copy()
    prev = None
    sx2 = 2 * D * dt / dx**2
    sy2 = 2 * D * dt / dy**2
    sz2 = 2 * Dz * dt

    def band_var(s2, m):
        return KSIG * s2 * np.sqrt(2.0 / (m - 1))

    try:
        for s in range(steps):
            timer.update()
            Xb, Yb, Zb = state.X.copy(), state.Y.copy(), state.Z.copy()
            tr.update()
            dX, dY, dZ = state.X - Xb, state.Y - Yb, state.Z - Zb
            cnt["displacements_observed"] = cnt.get("displacements_observed", 0) + 3 * n
            if case.get("varying_metric") and D > 0:
                # local spacing of the cell each particle occupied when the step began (independent formula)
                mx = dX * dx * (1.0 + 0.45 * np.sin(0.9 * np.round(Xb)))
                my = dY * dy * (1.0 + 0.45 * np.cos(0.7 * np.round(Yb)))
                for name, m_ in (("X", mx), ("Y", my)):
                    v = float(m_.var(ddof=1))
                    bump("varying_metric_variance_tests")
                    if abs(v - 2 * D * dt) > band_var(2 * D * dt, n) or abs(float(m_.mean())) > KSIG * np.sqrt(2 * D * dt / n):
                        V.append(C.viol(f"step {s}: on a grid with spatially varying spacing the {name} displacement in metres (local spacing of the start cell) has variance {v:.6g} "
                                        f"and mean {float(m_.mean()):.3g}; configured 2*D*dt = {2 * D * dt:.6g} (ratio {v / (2 * D * dt):.4f})", **desc))
                prev = None
                if len(V) > 3:
                    break
                continue
            if D > 0:
                for name, d, s2 in (("X", dX, sx2), ("Y", dY, sy2)):
                    m, v = float(d.mean()), float(d.var(ddof=1))
                    if abs(m) > KSIG * np.sqrt(s2 / n):
                        V.append(C.viol(f"step {s}: mean horizontal displacement in {name} = {m:.4g} cells, outside +-{KSIG * np.sqrt(s2 / n):.3g} (bias)", **desc))
                    bump("mean_tests")
                    if abs(v - s2) > band_var(s2, n):
                        V.append(C.viol(f"step {s}: variance of the {name} displacement = {v:.6g} cells^2, configured 2*D*dt/d{name.lower()}^2 = {s2:.6g} (ratio {v / s2:.4f})", **desc))
                    bump("horizontal_variance_tests")
                r = float(np.corrcoef(dX, dY)[0, 1])
                bump("cross_covariance_tests")
                if abs(r) > KSIG / np.sqrt(n):
                    V.append(C.viol(f"step {s}: X and Y displacements correlated (r = {r:.4f})", **desc))
                r = float(np.corrcoef(dX[:-1], dX[1:])[0, 1])
                bump("neighbour_tests")
                if abs(r) > KSIG / np.sqrt(n):
                    V.append(C.viol(f"step {s}: displacements of neighbouring particles correlated (r = {r:.4f})", **desc))
                if prev is not None:
                    r = float(np.corrcoef(prev[0], dX)[0, 1])
                    r2 = float(np.corrcoef(prev[1], dY)[0, 1])
                    bump("lag1_tests")
                    if abs(r) > KSIG / np.sqrt(n) or abs(r2) > KSIG / np.sqrt(n):
                        V.append(C.viol(f"step {s}: displacement correlated with the previous step's (r = {r:.4f}, {r2:.4f})", **desc))
                if dx != dy:
                    sit["anisotropic_grid"] = sit.get("anisotropic_grid", 0) + 1
            elif np.any(dX != 0) or np.any(dY != 0):
                V.append(C.viol(f"step {s}: horizontal displacement although D = 0 and the water is still", **desc))
            wdt = (case.get("w") or 0.0) * dt
            if case.get("w") is not None:
                bump("vertical_advection_with_diffusion_tests" if Dz > 0 else "vertical_advection_only_tests")
                if Dz == 0 and np.max(np.abs(dZ - wdt)) > 1e-9:
                    V.append(C.viol(f"step {s}: vertical advection alone moved particles by {float(dZ.mean()):.6g} m, w*dt = {wdt:.6g}", **desc))
            if Dz > 0:
                m, v = float(dZ.mean()) - wdt, float(dZ.var(ddof=1))
                bump("mean_tests")
                if abs(m) > KSIG * np.sqrt(sz2 / n):
                    V.append(C.viol(f"step {s}: mean vertical displacement {m:.4g} m, outside +-{KSIG * np.sqrt(sz2 / n):.3g}", **desc))
                bump("vertical_variance_tests")
                if abs(v - sz2) > band_var(sz2, n):
                    V.append(C.viol(f"step {s}: variance of the vertical displacement = {v:.6g} m^2, configured 2*Dz*dt = {sz2:.6g} (ratio {v / sz2:.4f})", **desc))
                if D > 0:
                    for hname, dh in (("X", dX), ("Y", dY)):
                        r = float(np.corrcoef(dh, dZ)[0, 1])
                        bump("horizontal_vertical_covariance_tests")
                        if abs(r) > KSIG / np.sqrt(n):
                            V.append(C.viol(f"step {s}: {hname} and vertical displacements correlated (r = {r:.4f})", **desc))
            elif np.any(dZ != 0) and case.get("w") is None:
                V.append(C.viol(f"step {s}: depth changed although Dz = 0 and vertical advection is off", **desc))
            prev = (dX, dY)
            if len(V) > 3:
                break
        # variance after m steps = m x one-step variance
        if steps >= 2 and not V and not case.get("varying_metric"):
            for name, tot, s2 in (("X", state.X - X0, sx2), ("Y", state.Y - Y0, sy2), ("Z", state.Z - Z0, sz2)):
                if s2 == 0:
                    continue
                v = float(tot.var(ddof=1))
                bump("growth_tests")
                if abs(v - steps * s2) > band_var(steps * s2, n):
                    V.append(C.viol(f"variance of the {name} displacement after {steps} steps = {v:.6g}, expected {steps} x {s2:.6g} = {steps * s2:.6g} (ratio {v / (steps * s2):.4f})", **desc))
    except AssertionError as e:
        V.append(C.viol(str(e), **desc))
    if D == 0 and Dz == 0:
        # deterministic: the rng was never consulted (ForbiddenRNG) and nothing moved; a second run is identical
        t2, s2_, tr2 = make(case["rngseed"] + 1)
        try:
            for _ in range(steps):
                t2.update()
                tr2.update()
            if np.any(s2_.X != state.X) or np.any(s2_.Z != state.Z):
                V.append(C.viol("two runs with D = Dz = 0 differ", **desc))
        except AssertionError as e:
            V.append(C.viol(str(e), **desc))
        sit["zero_diffusion_deterministic"] = 1
    key = str({k: v for k, v in case.items() if k != "idx"})
    sample = dict(desc, advection=case["advection"], expected_var_x=sx2, expected_var_z=sz2,
                  observed_total_var_x=float((state.X - X0).var(ddof=1)), observed_total_var_z=float((state.Z - Z0).var(ddof=1)))
    return C.result(V[:4], sit, cnt, nontrivial=(D > 0 or Dz > 0) and steps >= 2, key=key, sample=sample)
