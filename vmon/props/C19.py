"""C19 Step protocol: release, forcing, output, move, IBM; once per step in that order.

Monitors: (1) call log written by hooks on the stock classes and by recording plug-ins (ibm, forcing, grid, output)
that ladim itself loads through its `module:` mechanism; (2) an independent, patch-free `sys.monitoring` PY_START
tracer restricted to the anchored functions - both logs must agree; (3) the trace grammar per step; (4) value
clauses read from the output file / plug-in snapshots (new particles are in the forcing evaluation and in the
record of their release step; a position-and-time-coded scalar in a record matches the record's own X, Y, t; the
IBM sees moved positions once per step; IBM kills take effect from the next record on; every close once; the
plug-in given by path is the one that runs, never the decoy of the same name on sys.path)."""

from __future__ import annotations

import os
import sys
from pathlib import Path
from typing import Any

import numpy as np

from vmon import common as C
from vmon import rec
from vmon.env import REPO, VERIF
from vmon.hooks import Hooks
from vmon.scenario import all_records, read_outputs, run_scenario, tadd

LEVEL = "exploration"
TECHNIQUE = "runtime monitoring: online/offline trace-grammar checker over a call log from class hooks + recording plug-ins, cross-checked against an independent sys.monitoring PY_START tracer; value clauses from output read-back and plug-in snapshots"
LEVEL_TEXT = ("Real runs of lengths 1-12 with output periods 1-4 and all plug-in combinations (IBM, forcing, grid, output given by relative path, absolute path, with/without .py, in a "
              "sub-directory, and by module name on sys.path, always with a decoy module of the same name importable from sys.path), cold and warm start; the per-step call sequence must be "
              "time, release, forcing, [output iff step >= 0], tracker, ibm - each exactly once - and close exactly once per module that has one.")
LEVEL_NOTE = "The two traces are recorded by different mechanisms (wrappers vs interpreter events) and must agree call for call; a run whose tracer saw zero anchored calls is inconclusive."
RULE = ("case = (variant, steps, period, plug-in spelling, warm/cold, kill schedule). Non-trivial: at least 2 steps and a release after the first step or an IBM kill; distinct by parameters.")
MANDATORY = ["configuration_file_outside_the_working_directory_next_to_namesakes", "ibm_removal_followed_warm", "ibm_removal_followed_cold", "v1_ibm_section_with_module_key", "v1_ibm_section_with_ibm_module_key", "grid_module_taken_from_the_forcing_section", "two_models_alive_and_stepped_in_turn", "records_compared_with_the_solo_run", "plugin_file_name_with_a_dot", "warm_start_record_times_checked", "v1_user_gridforce_module", "v1_user_module_name_ending_in_ROMS", "no_particles_during_first_steps", "stock_scalar_values_checked", "plugin_section_with_module_only", "steps_parsed", "traces_agree", "plugin_relative", "plugin_absolute", "plugin_with_py", "plugin_subdir", "plugin_module_name", "decoy_present", "warm_start_runs",
             "output_plugin_runs", "forcing_plugin_runs", "coded_scalar_values_checked", "ibm_positions_checked", "kills_checked", "ibm_kills_everybody_present", "late_release_in_record", "close_calls_checked"]
ASSUMPTIONS = ["state and time have no close by design; close is required exactly once only for modules that define one"]
MIN_CASES_PER_PROCESS = 4  # several runs share one interpreter: state leaking between runs (module caches, shared defaults) becomes observable
TIMEOUT = {"quick": 900, "thorough": 3400}
TOOL = 3  # sys.monitoring tool id
SPELLINGS = ["relative", "relative_py", "absolute", "absolute_py", "subdir", "module_name"]
ROLE = {"TimeKeeper": "time", "ParticleReleaser": "release", "Forcing": "forcing", "Output": "output", "Tracker": "tracker", "IBM": "ibm", "Grid": "grid"}


def gen_cases(tier: str, seed: int) -> list[dict[str, Any]]:
    n = 72 if tier == "quick" else 15000
    cases = []
    for i in range(n):
        rng = C.rng_for(seed, 19, i)
        variant = ["stock", "analytic", "recout"][i % 3]
        warm = bool(i % 4 == 3 and variant != "recout")
        cases.append(dict(idx=i, variant=variant, nsteps=int(rng.integers(1, 13)), period=int(rng.integers(1, 5)) if i % 2 else 1,
                          spelling=SPELLINGS[i % len(SPELLINGS)], warm=warm, seed=seed))
    # two simulations alive in one process and stepped in turn: each keeps to its own protocol, state and forcing
    for i in range(6 if tier == "quick" else 300):
        cases.append(dict(kind="two_models", idx=i, seed=seed))
    # legacy (version 1) configuration files naming a user's own grid/forcing module in the gridforce section
    for i in range(8 if tier == "quick" else 400):
        cases.append(dict(kind="v1_gridforce", idx=i, seed=seed, nsteps=3 + i % 5))
    return cases


def write_plugin(path: Path, who: str, target: str, cls: str) -> None:
    path.parent.mkdir(parents=True, exist_ok=True)
    path.write_text(f"WHO = {who!r}\nfrom vmon import rec\nrec.CALLS.append(('loaded', WHO, {cls!r}))\nfrom vmon.plugins.{target} import {cls}  # noqa: E402,F401\n")


def write_decoy(path: Path, cls: str) -> None:
    path.parent.mkdir(parents=True, exist_ok=True)
    path.write_text(
        "from vmon import rec\nrec.CALLS.append(('loaded', 'decoy', %r))\n\n\nclass %s:\n    def __init__(self, *a, **k):\n        rec.CALLS.append(('decoy.init',))\n\n"
        "    def update(self):\n        rec.CALLS.append(('decoy.update',))\n\n    def close(self):\n        pass\n" % (cls, cls))


def spell(wd: Path, name: str, spelling: str) -> str:
    """Return the `module:` string for plug-in file <name>.py under the given spelling (file is created by the caller)."""
    if spelling == "relative":
        return name
    if spelling == "relative_py":
        return name + ".py"
    if spelling == "absolute":
        return str(wd / name)
    if spelling == "absolute_py":
        return str(wd / (name + ".py"))
    if spelling == "subdir":
        return f"plug/{name}"
    return name  # module_name: found on sys.path only


class Tracer:
    """Patch-free call tracer (sys.monitoring, Python 3.12): PY_START of the anchored functions."""

    NAMES = {"update", "close", "write", "finish"}

    def __init__(self, roots: list[str]):
        self.roots = roots
        self.events: list[str] = []
        self.active = False

    def start(self):
        mon = sys.monitoring
        try:
            mon.use_tool_id(TOOL, "vmon-c19")
        except ValueError:
            mon.free_tool_id(TOOL)
            mon.use_tool_id(TOOL, "vmon-c19")
        mon.register_callback(TOOL, mon.events.PY_START, self._cb)
        mon.set_events(TOOL, mon.events.PY_START)
        self.active = True

    def stop(self):
        mon = sys.monitoring
        mon.set_events(TOOL, 0)
        mon.register_callback(TOOL, mon.events.PY_START, None)
        mon.free_tool_id(TOOL)
        self.active = False

    def _cb(self, code, offset):
        fn = code.co_filename
        if not any(fn.startswith(r) for r in self.roots):
            return sys.monitoring.DISABLE
        q = code.co_qualname
        if "." not in q:
            return sys.monitoring.DISABLE
        clsname, meth = q.rsplit(".", 1)
        clsname = clsname.split(".")[-1]
        if meth not in self.NAMES or (clsname not in ROLE and clsname != "Model"):
            return sys.monitoring.DISABLE
        if "hooks.py" in fn:
            return sys.monitoring.DISABLE
        self.events.append(("model" if clsname == "Model" else ROLE[clsname]) + "." + meth)
        return None


def run_v1_gridforce(case: dict[str, Any], wd: Path) -> dict[str, Any]:
    """A version-1 file whose gridforce module is the user's own file: that file's Grid and Forcing are the ones that run."""
    from vmon.scenario import run_ladim, write_release, write_yaml  # noqa: PLC0415
    from vmon import world as W  # noqa: PLC0415

    wd.mkdir(parents=True, exist_ok=True)
    ns, dt = case["nsteps"], 600
    name = ["my_gridforce", "local_ROMS", "ROMS", "fjordROMS", "roms_patched", "ROMS2020", "gridforce.ROMS_local", "xROMS"][case["idx"] % 8].replace(".", "_")
    spelling = ["absolute", "relative", "absolute_py", "relative"][case["idx"] % 4]
    (wd / f"{name}.py").write_text(
        "from vmon import rec\nfrom ladim.ROMS import Grid as _G, Forcing as _F\n\n\nclass Grid(_G):\n    def __init__(self, *a, **k):\n        rec.CALLS.append(('user.grid.init',))\n"
        "        super().__init__(*a, **k)\n\n\nclass Forcing(_F):\n    def __init__(self, *a, **k):\n        rec.CALLS.append(('user.forcing.init',))\n        super().__init__(*a, **k)\n\n"
        "    def update(self):\n        rec.CALLS.append(('user.forcing.update',))\n        super().update()\n")
    start = C.T0
    w = W.write_world(wd / "world", dict(imax=14, jmax=12, N=2, t0=str(tadd(start, -dt)), frames=[0, (ns + 3) * dt], files=[2], vel=dict(kind="const", u=0.1, v=0.05)))
    rls = wd / "release.rls"
    write_release(rls, ["release_time", "X", "Y", "Z"], [[start, 5.0, 5.0, 1.0], [start, 6.5, 4.0, 2.0]], header=False)
    module = dict(absolute=str(wd / name), absolute_py=str(wd / f"{name}.py"), relative=name)[spelling]
    v1 = dict(time_control=dict(start_time=start, stop_time=str(tadd(start, ns * dt))), files=dict(particle_release_file=str(rls), output_file=str(wd / "out.nc")),
              gridforce=dict(module=module, input_file=str(w["files"][0])), numerics=dict(dt=dt, advection="EF", diffusion=0.0),
              particle_release=dict(variables=["release_time", "X", "Y", "Z"], particle_variables=["release_time"], release_time="time"),
              output_variables=dict(outper=[dt, "s"], format="NETCDF4", instance=["pid", "X", "Y", "Z"], particle=["release_time"],
                                    pid=dict(ncformat="i4", long_name="pid"), X=dict(ncformat="f8", long_name="X"), Y=dict(ncformat="f8", long_name="Y"),
                                    Z=dict(ncformat="f8", long_name="Z"), release_time=dict(ncformat="f8", long_name="release time", units="seconds since reference_time")))
    # the user's IBM, named in the version-1 file by `module` (as examples/lakselus/ladim1.yaml does) or by `ibm_module`
    ibm_key = ["module", "ibm_module"][case["idx"] % 2]
    v1["ibm"] = {ibm_key: C.REC_IBM, "log": False}
    cf = wd / "ladim1.yaml"
    write_yaml(v1, cf)
    rec.reset()
    old_path = list(sys.path)
    try:
        res = run_ladim(cf, cwd=wd)
    finally:
        sys.path[:] = old_path
        sys.modules.pop(name, None)
    calls = list(rec.CALLS)
    rec.reset()
    V: list = []
    desc = dict(kind="v1_gridforce", module=module, nsteps=ns)
    sit = {"v1_user_gridforce_module": 1, "v1_user_module_name_ending_in_ROMS": int(name.endswith("ROMS")), f"v1_ibm_section_with_{ibm_key}_key": 1}
    if not res.ok:
        V.append(C.viol(f"version-1 configuration with the user's gridforce module {module!r} did not run: {res.exc}", tb=res.tb[-1000:], **desc))
    else:
        nupd = sum(1 for c in calls if c[0] == "user.forcing.update")
        if ("user.grid.init",) not in calls or ("user.forcing.init",) not in calls or nupd != ns:
            V.append(C.viol(f"version-1 configuration names the user's module {module!r} for grid and forcing, but its Grid/Forcing did not run "
                            f"(grid init {('user.grid.init',) in calls}, forcing init {('user.forcing.init',) in calls}, {nupd} forcing updates in {ns} steps)", **desc))
    if res.ok:
        nib = sum(1 for c in calls if c[0] == "ibm.update")
        if ("ibm.init",) not in calls or nib != ns or calls.count(("ibm.close",)) != 1:
            V.append(C.viol(f"version-1 configuration names the user's IBM with the key {ibm_key!r}: init {('ibm.init',) in calls}, {nib} update calls in {ns} steps, "
                            f"{calls.count(('ibm.close',))} close calls (the user's module must run, be updated once per step and closed once)", **desc))
    return C.result(V, sit, {}, nontrivial=True, key=str(desc), sample=desc)


def run_two_models(case: dict[str, Any], wd: Path) -> dict[str, Any]:
    """Two Model objects built one after the other and stepped alternately write what each writes when it runs alone."""
    from vmon import world as W  # noqa: PLC0415
    from vmon.scenario import all_records, build_config, read_outputs, run_ladim, run_two_models_alive, write_yaml  # noqa: PLC0415

    rng = C.rng_for(case["seed"], 192, case["idx"])
    wd.mkdir(parents=True, exist_ok=True)
    dt = 600
    start = C.T0
    V: list = []
    desc = dict(kind="two_models", idx=case["idx"])
    confs = []
    for tag in ("a", "b"):
        ns = int(rng.integers(4, 10))
        sub = None if tag == "a" else [3, 12, 2, 10]  # the second simulation on a smaller subgrid of its own files
        w = W.write_world(wd / f"world_{tag}", dict(imax=18, jmax=14, N=2, t0=str(tadd(start, -dt)), frames=[0, (ns + 3) * dt], files=[2],
                                                    vel=dict(kind="const", u=float(rng.uniform(0.1, 0.4)), v=float(rng.uniform(-0.2, 0.2))),
                                                    scalars=dict(temp=dict(kind="xyt", a=2.0 if tag == "a" else 9.0, b=0.5, c=-0.25, e=0.0))))
        if tag == "a":  # the first simulation's particles are outside the area the second one loads
            rows = [[start, 13.2 + 0.6 * k, 10.2 + 0.4 * k, 1.0] for k in range(3)] + [[str(tadd(start, 2 * dt)), 14.5, 11.0, 1.0]]
        else:
            rows = [[start, 5.0 + k, 4.0 + 0.5 * k, 1.0] for k in range(3)] + [[str(tadd(start, 2 * dt)), 7.5, 6.5, 1.0]]
        run = dict(start=start, stop=str(tadd(start, ns * dt)), dt=dt, advection=["EF", "RK2", "RK4"][case["idx"] % 3], subgrid=sub, extra_forcing=["temp"],
                   release=dict(columns=["release_time", "X", "Y", "Z"], rows=rows, header=True, file=f"release_{tag}.rls"),
                   state=dict(instance_variables=dict(temp="float"), default_values=dict(temp=0.0)),
                   output=dict(period=dt, filename=f"solo_{tag}.nc", instance=dict(pid="i4", X="f8", Y="f8", Z="f8", temp="f8")))
        conf = build_config(run, wd, w)
        write_yaml(conf, wd / f"solo_{tag}.yaml")
        r0 = run_ladim(wd / f"solo_{tag}.yaml", cwd=wd)
        if not r0.ok:
            return C.result([], {}, {}, nontrivial=False, key=str(desc), sample=desc, void=True, note=f"solo run failed: {r0.exc}")
        conf["output"]["filename"] = str(wd / f"pair_{tag}.nc")
        write_yaml(conf, wd / f"pair_{tag}.yaml")
        confs.append(conf)
    res = run_two_models_alive(wd / "pair_a.yaml", wd / "pair_b.yaml", wd)
    sit = {"two_models_alive_and_stepped_in_turn": 1}
    if not res.ok:
        V.append(C.viol(f"two simulations alive in one process, stepped in turn: {res.exc} (each of them runs alone)", tb=res.tb[-1200:], **desc))
    else:
        for tag in ("a", "b"):
            solo = all_records(read_outputs([wd / f"solo_{tag}.nc"]))
            pair = all_records(read_outputs([wd / f"pair_{tag}.nc"]))
            if len(solo) != len(pair):
                V.append(C.viol(f"simulation {tag}: {len(pair)} records when stepped in turn with another simulation, {len(solo)} when run alone", **desc))
                continue
            for x, y in zip(solo, pair):
                same = x.time == y.time and len(x.pid) == len(y.pid) and np.all(x.pid == y.pid) and all(np.array_equal(x.vars[k], y.vars[k]) for k in ("X", "Y", "temp"))
                sit["records_compared_with_the_solo_run"] = sit.get("records_compared_with_the_solo_run", 0) + 1
                if not same:
                    V.append(C.viol(f"simulation {tag}: record at {y.time} differs from the record the same simulation writes when it runs alone", **desc))
                    break
    return C.result(V[:3], sit, {}, nontrivial=True, key=str(desc), sample=desc)


def run_case(case: dict[str, Any], wd: Path) -> dict[str, Any]:
    if case.get("kind") == "v1_gridforce":
        return run_v1_gridforce(case, wd)
    if case.get("kind") == "two_models":
        return run_two_models(case, wd)
    import ladim.out_netcdf as ON  # noqa: PLC0415
    import ladim.release as RL  # noqa: PLC0415
    import ladim.ROMS as RO  # noqa: PLC0415
    import ladim.timekeeper as TK  # noqa: PLC0415
    import ladim.tracker as TR  # noqa: PLC0415
    from ladim.model import Model  # noqa: PLC0415

    rng = C.rng_for(case["seed"], 191, case["idx"])
    wd.mkdir(parents=True, exist_ok=True)
    variant, ns, P, sp = case["variant"], case["nsteps"], case["period"], case["spelling"]
    dt = 600
    V: list = []
    sit: dict[str, int] = {}
    cnt: dict[str, int] = {}
    desc = dict(variant=variant, nsteps=ns, period=P, spelling=sp, warm=case["warm"], idx=case["idx"])
    # --- plug-in files: the real one where the spelling points, a decoy of the same name on sys.path
    decoy_dir = wd / "decoy_path"
    moddir = wd / "mods_on_path"
    dotted = bool(case["idx"] % 7 == 3 and sp in ("relative", "relative_py", "absolute", "absolute_py"))
    # a plug-in file with a dot in its name (my_ibm.v2.py), next to an older file without it (my_ibm.py) that must not run
    plugins = {"ibm": ("my_ibm.v2" if dotted else "my_ibm", "rec_ibm", "IBM")}
    if dotted:
        write_decoy(wd / "my_ibm.py", "IBM")
        sit["plugin_file_name_with_a_dot"] = 1
    if variant in ("analytic", "recout"):
        plugins["forcing"] = ("my_forcing", "ana_forcing", "Forcing")
        plugins["grid"] = ("my_grid", "ana_grid", "Grid")
    if variant == "recout":
        plugins["output"] = ("my_output", "rec_output", "Output")
    modspec = {}
    for role, (name, target, cls) in plugins.items():
        if sp == "module_name":
            write_plugin(moddir / f"{name}.py", f"real:{role}", target, cls)
        elif sp == "subdir":
            write_plugin(wd / "plug" / f"{name}.py", f"real:{role}", target, cls)
        else:
            write_plugin(wd / f"{name}.py", f"real:{role}", target, cls)
        if sp != "module_name":
            write_decoy(decoy_dir / f"{name}.py", cls)  # same name importable from sys.path: must never run
            if sp == "subdir":
                write_decoy(wd / f"{name}.py", cls)  # a file of the same name in the working directory itself
        modspec[role] = spell(wd, name, sp)
    # a third of the relative spellings: the configuration file lives in another directory than the working directory, next to files that carry
    # the plug-ins' names - relative plug-in paths are relative to the working directory, those neighbours must not run
    cfg_elsewhere = bool(case["idx"] % 3 == 1 and sp in ("relative", "relative_py") and not case["warm"])
    if cfg_elsewhere:
        for role, (name, _t, cls) in plugins.items():
            write_decoy(wd / "cfg" / f"{name}.py", cls)
        sit["configuration_file_outside_the_working_directory_next_to_namesakes"] = 1
    one_file = bool(variant == "analytic" and case["idx"] % 5 == 1 and sp in ("relative", "relative_py", "absolute", "absolute_py"))
    if one_file:
        # Grid and Forcing live in one user file named in the forcing section only; the grid section carries options but no module
        (wd / "my_gridforce.py").write_text("from vmon import rec\nrec.CALLS.append(('loaded', 'real:grid', 'Grid'))\nrec.CALLS.append(('loaded', 'real:forcing', 'Forcing'))\n"
                                            "from vmon.plugins.ana_grid import Grid  # noqa: E402,F401\nfrom vmon.plugins.ana_forcing import Forcing  # noqa: E402,F401\n")
        write_decoy(decoy_dir / "my_gridforce.py", "Grid")
        modspec["grid"] = modspec["forcing"] = spell(wd, "my_gridforce", sp)
        sit["grid_module_taken_from_the_forcing_section"] = 1
    sit["plugin_" + {"relative": "relative", "relative_py": "with_py", "absolute": "absolute", "absolute_py": "with_py", "subdir": "subdir", "module_name": "module_name"}[sp]] = 1
    sit["decoy_present"] = int(sp != "module_name")
    sit["plugin_section_with_module_only"] = int(case["idx"] % 3 == 0)
    # --- scenario
    start = C.T0
    late = int(rng.integers(1, ns)) if ns > 1 else 0
    rows = [[start, 6.0 + k, 5.0 + 0.5 * k, 2.0] for k in range(3)]
    if late:
        rows += [[str(tadd(start, late * dt)), 7.5, 6.5, 3.0], [str(tadd(start, late * dt)), 8.5, 5.5, 3.0]]
    late_only = bool(late >= 2 and case["idx"] % 4 == 2)
    if late_only:
        rows = rows[3:]  # nobody in the state during the first steps: the forcing must still be evaluated (and step through its frames) every step
        sit["no_particles_during_first_steps"] = 1
    early_n = 0 if late_only else 3
    kill_step = int(rng.integers(0, ns)) if ns > 2 and rng.random() < 0.7 and case["idx"] % 3 and not late_only else None
    victims = [1]
    if kill_step is not None and case["idx"] % 4 == 1:
        # everybody present is killed in the same step: no living particle until the next release (if any)
        victims = [0, 1, 2] + ([3, 4] if late and late <= kill_step else [])
        sit["ibm_kills_everybody_present"] = 1
    kills = {str(kill_step): victims} if kill_step is not None else {}
    # warm cases: the IBM also removes pid 2 in the step that begins at the restart record (step P) - the step a warm start repeats before its time loop
    tkill = {str(tadd(start, P * dt)): [2]} if (case["warm"] and case["idx"] % 3 and not late_only and P < ns) else {}
    coef = dict(a=3.0, b=0.25, c=-0.5, e=1.0e-3)
    sp_u = 0.2 * 1000.0 / dt
    run: dict[str, Any] = dict(start=start, stop=str(tadd(start, ns * dt)), dt=dt, advection="EF",
                               release=dict(columns=["release_time", "X", "Y", "Z"], rows=rows, header=True),
                               state=dict(instance_variables=dict(temp="float"), default_values=dict(temp=0.0)),
                               ibm=dict(module=modspec["ibm"], kill=kills, kill_time=tkill, log=True) if case["idx"] % 3 else dict(module=modspec["ibm"]),  # every third case: `module:` only
                               output=dict(period=P * dt, instance=dict(pid="i4", X="f8", Y="f8", Z="f8", temp="f8"), numrec=2 if case["warm"] else 0))
    world = None
    if variant == "stock":
        nfr = (ns + 3) // 2 + 2  # a frame every second step, each with its own temperature
        world = dict(imax=20, jmax=16, N=2, t0=str(tadd(start, -dt)), frames=[2 * k * dt for k in range(nfr)], files=[nfr], vel=dict(kind="const", u=sp_u, v=0.5 * sp_u),
                     scalars=dict(temp=dict(kind="const_frames", values=[7.5 + k for k in range(nfr)])))
        run["extra_forcing"] = ["temp"]
    else:
        run["grid"] = dict(module=modspec["grid"], filename="unused-by-this-plug-in", xmin=0.0, xmax=30.0, ymin=0.0, ymax=25.0, dx=1000.0)
        if one_file:
            run["grid"].pop("module")
        run["forcing"] = dict(module=modspec["forcing"], flow=dict(kind="rotation", omega=sp_u / 5.0, xc=8.0, yc=6.0), scalar=coef, record=False)
    scn = dict(world=world, run=run)

    def tweak(conf):
        if variant == "recout":
            conf["output"] = dict(module=modspec["output"], output_period=P * dt)

    old_path = list(sys.path)
    sys.path.insert(2, str(decoy_dir))
    sys.path.insert(2, str(moddir))
    for m in [k for k in sys.modules if k in ("my_ibm", "my_forcing", "my_grid", "my_output", "my_gridforce")]:
        del sys.modules[m]
    tracer = Tracer([str(REPO / "ladim"), str(wd), str(VERIF / "vmon" / "plugins")])
    rec.reset()

    def log(name):
        def before(self, *a, **k):
            t = self.modules["time"] if hasattr(self, "modules") and self.modules and "time" in self.modules else None
            rec.CALLS.append((name, int(t.step) if t is not None else None))
        return before

    segments = []  # (label, calls, trace, result, conf)
    try:
        with Hooks() as hk:
            hk.wrap(Model, "update", lambda self: rec.CALLS.append(("model.update",)), None)
            hk.wrap(Model, "finish", lambda self: rec.CALLS.append(("model.finish",)), None)
            hk.wrap(TK.TimeKeeper, "update", lambda self: rec.CALLS.append(("time.update", int(self.step) + 1)), None)
            hk.wrap(RL.ParticleReleaser, "update", log("release.update"), None)
            hk.wrap(TR.Tracker, "update", log("tracker.update"), None)
            if variant == "stock":
                hk.wrap(RO.Forcing, "update", lambda self: rec.CALLS.append(("forcing.update", int(self.modules["time"].step), len(self.modules["state"].X))), None)
                hk.wrap(RO.Forcing, "close", lambda self: rec.CALLS.append(("forcing.close",)), None)
            if variant != "recout":
                hk.wrap(ON.Output, "update", log("output.update"), None)
                hk.wrap(ON.Output, "write", lambda self, state: rec.CALLS.append(("output.write", int(self.modules["time"].step))), None)
                hk.wrap(ON.Output, "close", lambda self: rec.CALLS.append(("output.close",)), None)
            tracer.start()
            try:
                res, conf, w = run_scenario(scn, wd, tweak=tweak, conf_name="cfg/ladim.yaml" if cfg_elsewhere else "ladim.yaml")
            finally:
                tracer.stop()
            segments.append(("cold", list(rec.CALLS), list(tracer.events), list(rec.LOG), res, conf))
            if case["warm"] and res.ok and len(res.outputs) >= 2:
                # warm start from the first completed file, plug-ins and hooks still in place
                rec.reset()
                tracer.events.clear()
                wfile = res.outputs[0]
                run2 = dict(run, warm_start=dict(filename=str(wfile), variables=["temp"]))
                run2["output"] = dict(run["output"], filename="warm.nc", numrec=0)
                tracer.start()
                try:
                    res2, conf2, _w = run_scenario(dict(world=None, run=run2), wd, conf_name="warm.yaml", world=w)
                finally:
                    tracer.stop()
                segments.append(("warm", list(rec.CALLS), list(tracer.events), list(rec.LOG), res2, conf2))
                sit["warm_start_runs"] = 1
    finally:
        sys.path[:] = old_path
        rec.reset()

    for label, calls, trace, plog, res, conf in segments:
        d2 = dict(desc, segment=label)
        if not res.ok:
            V.append(C.viol(f"{label} run did not complete: {res.exc}", tb=res.tb[-1500:], **d2))
            continue
        names = [c[0] for c in calls]
        # --- the plug-in given by path is the one that runs
        loaded = [c for c in calls if c[0] == "loaded"]
        if any(c[1] == "decoy" for c in loaded) or any(n.startswith("decoy") for n in names):
            V.append(C.viol(f"the decoy module importable from sys.path was loaded/run instead of the plug-in file given in the configuration ({modspec})", **d2))
        for role in plugins:
            if not any(c[1] == f"real:{role}" for c in loaded):
                V.append(C.viol(f"plug-in for {role} given as {modspec[role]!r} was not loaded", **d2))
        # --- trace grammar
        per_step = ["time.update", "release.update", "forcing.update", "output.update", "tracker.update", "ibm.update"]
        seq = [c for c in calls if c[0] in per_step or c[0] in ("model.update", "model.finish") or c[0].endswith(".close")]
        i = 0
        if label == "warm":
            want = ["release.update", "forcing.update", "tracker.update", "ibm.update"]
            got = [c[0] for c in seq[:4]]
            if got != want:
                V.append(C.viol(f"warm start catch-up sequence {got}, documented {want}", **d2))
            i = 4
        nupd = 0
        while i < len(seq) and seq[i][0] == "model.update":
            got = [c[0] for c in seq[i + 1:i + 7]]
            step = seq[i + 1][1] if len(seq) > i + 1 else None
            want = list(per_step)
            if got != want:
                # output.update may legitimately be absent only when step < 0 (never in a main loop)
                V.append(C.viol(f"step {step}: call sequence {got}, protocol {want}", **d2))
                break
            i += 7
            nupd += 1
            sit["steps_parsed"] = sit.get("steps_parsed", 0) + 1
        ns_expected = ns if label == "cold" else ns - P  # the warm start resumes at the last record of the first file (numrec = 2)
        if nupd != ns_expected and not V:
            V.append(C.viol(f"{nupd} model steps executed, the run has {ns_expected}", **d2))
        tail = [c[0] for c in seq[i:]]
        if not V:
            if not tail or tail[0] != "model.finish":
                V.append(C.viol(f"after the time loop: {tail[:6]}, expected model.finish and the close calls", **d2))
            closes = tail[1:]
            have_close = ["forcing", "ibm", "output"] + (["grid"] if "grid" in plugins else [])
            for m in have_close:
                n = closes.count(f"{m}.close")
                sit["close_calls_checked"] = sit.get("close_calls_checked", 0) + 1
                if n != 1:
                    V.append(C.viol(f"{m}.close called {n} times at the end of the run (must be once)", **d2))
            if any(not c.endswith(".close") for c in closes):
                V.append(C.viol(f"unexpected calls after finish: {closes}", **d2))
        # --- both traces agree
        tr_names = [t for t in trace if t.split(".")[1] in ("update", "close", "finish") and t != "output.write"]
        hk_names = [n for n in names if n in per_step or n in ("model.update", "model.finish") or n.endswith(".close")]
        hk_names = [n for n in hk_names if n != "grid.close" or "grid" in plugins]
        if not tr_names:
            return C.result(V, sit, cnt, nontrivial=False, key=str(case["idx"]), sample=desc, inconclusive="sys.monitoring tracer observed no anchored call")
        cnt["tracer_events"] = cnt.get("tracer_events", 0) + len(tr_names)
        cnt["hook_events"] = cnt.get("hook_events", 0) + len(hk_names)
        if tr_names != hk_names:
            k = next((j for j, (a, b) in enumerate(zip(tr_names, hk_names)) if a != b), min(len(tr_names), len(hk_names)))
            V.append(C.viol(f"interpreter-level call trace and hook/plug-in call log disagree at event {k}: {tr_names[max(0, k - 2):k + 3]} vs {hk_names[max(0, k - 2):k + 3]}", **d2))
        else:
            sit["traces_agree"] = sit.get("traces_agree", 0) + 1
        if V:
            continue
        # --- value clauses
        snaps = {s["step"]: s for s in plog if "alive" in s}
        if variant == "recout":
            records = {r["step"]: r for r in plog if r.get("kind") == "record"}
            sit["output_plugin_runs"] = 1
        else:
            recs = all_records(read_outputs(res.outputs))
            t0 = np.datetime64(conf["time"]["start"], "s") if label == "cold" else None
            records = {}
            for r in recs:
                base = np.datetime64(start, "s")
                records[int((r.time - base) / np.timedelta64(1, "s")) // dt] = dict(step=None, pid=r.pid, X=r.vars["X"], Y=r.vars["Y"], temp=r.vars["temp"])
            _ = t0
        if variant != "stock":
            sit["forcing_plugin_runs"] = 1
        first_step = 0
        if label == "warm":
            # record steps are relative to the original start
            first_step = min(records) if records else 0
            # the restarted run took up at the last record of the first file (step P): its records are labelled with later output times only
            bad_t = [s_ for s_ in sorted(records) if s_ <= P or s_ % P]
            sit["warm_start_record_times_checked"] = sit.get("warm_start_record_times_checked", 0) + len(records)
            if bad_t and variant != "recout":
                V.append(C.viol(f"warm-started run (restart at step {P}, output every {P} steps): records labelled with the times of steps {sorted(records)}; "
                                f"steps {bad_t} are not output times after the restart", **d2))
        for s, r in sorted(records.items()):
            if variant != "stock" and r["temp"] is not None and label == "cold":
                want = coef["a"] + coef["b"] * np.asarray(r["X"]) + coef["c"] * np.asarray(r["Y"]) + coef["e"] * s * dt
                sit["coded_scalar_values_checked"] = sit.get("coded_scalar_values_checked", 0) + len(want)
                if len(want) and np.max(np.abs(np.asarray(r["temp"]) - want)) > 1e-12:
                    V.append(C.viol(f"record of step {s}: forcing-derived scalar {np.asarray(r['temp'])[:3].tolist()} is not the coded field at the record's own X, Y and time "
                                    f"({want[:3].tolist()}): positions and forcing variables of the record are not valid at the same time", **d2))
                    break
            if variant == "stock" and label == "cold" and r["temp"] is not None and len(r["temp"]):
                # stock forcing: the scalar of a record is the latest frame at or before the record's time (frame k at step 2k - 1)
                want_t = 7.5 + (s + 1) // 2
                sit["stock_scalar_values_checked"] = sit.get("stock_scalar_values_checked", 0) + len(r["temp"])
                if np.max(np.abs(np.asarray(r["temp"]) - want_t)) > 1e-6:
                    V.append(C.viol(f"record of step {s}: forcing-derived scalar {np.asarray(r['temp'])[:3].tolist()}, the latest forcing frame at or before that time holds {want_t}: "
                                    f"the forcing was not evaluated at every step", **d2))
                    break
            if label == "cold" and late and s == late:
                sit["late_release_in_record"] = sit.get("late_release_in_record", 0) + 1
                if not {early_n, early_n + 1} <= set(int(p) for p in r["pid"]):
                    V.append(C.viol(f"particles released at step {late} are missing from the record of that step (pids {list(r['pid'])})", **d2))
            # the IBM of step s-1 saw the positions this record shows (nothing moves particles between IBM and the next record)
            if label == "cold" and (s - 1) in snaps and P == 1:
                sn = snaps[s - 1]
                for k, p in enumerate(r["pid"]):
                    j = np.nonzero(sn["pid"] == p)[0]
                    if len(j) and sn["alive"][j[0]]:
                        sit["ibm_positions_checked"] = sit.get("ibm_positions_checked", 0) + 1
                        if sn["X"][j[0]] != r["X"][k] or sn["Y"][j[0]] != r["Y"][k]:
                            V.append(C.viol(f"IBM at step {s - 1} saw pid {p} at ({sn['X'][j[0]]},{sn['Y'][j[0]]}), record of step {s} shows ({r['X'][k]},{r['Y'][k]}): the IBM did not see the moved position", **d2))
                            break
        # forcing evaluated for the newly released particles (forcing.update log carries the state length)
        if label == "cold" and late:
            fu = [c for c in calls if c[0] == "forcing.update" and len(c) >= 3 and c[1] == late]
            gone_before = len([v for v in victims if v < 3]) if (kill_step is not None and kill_step < late) else 0
            if tkill and P < late and not (gone_before and 2 in victims):
                gone_before += 1
            if fu and fu[0][2] < early_n + 2 - gone_before:
                V.append(C.viol(f"forcing at step {late} evaluated for {fu[0][2]} particles: the particles released in this step were not included", **d2))
        # a particle the IBM removed is gone from the state by the IBM's next call (cold and warm: also when the removal happens in the step a warm start repeats)
        for tk_, vs_ in tkill.items():
            for sn in [q for q in plog if "alive" in q and np.datetime64(q["time"], "s") > np.datetime64(tk_, "s")]:
                sit[f"ibm_removal_followed_{label}"] = sit.get(f"ibm_removal_followed_{label}", 0) + 1
                back = [int(v) for v in vs_ if int(v) in set(int(x) for x in sn["pid"])]
                if back and len(V) < 3:
                    V.append(C.viol(f"{label} run: the IBM removed pid {back} in its call at {tk_}; at its call at {sn['time']} the particle is still in the state "
                                    f"(alive flags {[bool(a) for a in sn['alive']]}): it was moved and handed to the IBM once more", **d2))
                    break
        # IBM sees every living pid once per step
        steps_seen = [s["step"] for s in plog if "alive" in s]
        if label == "cold" and steps_seen != list(range(ns)):
            V.append(C.viol(f"IBM called at steps {steps_seen}, expected once per step 0..{ns - 1}", **d2))
        # kill at step s takes effect from the next record on
        if label == "cold" and kill_step is not None:
            sit["kills_checked"] = sit.get("kills_checked", 0) + 1
            for s, r in sorted(records.items()):
                inrec = set(int(p) for p in r["pid"])
                for vp in victims:
                    has = vp in inrec
                    born = 0 if vp < 3 else late
                    if born <= s <= kill_step and not has:
                        V.append(C.viol(f"pid {vp} (killed by the IBM at step {kill_step}) is already missing from the record of step {s}", **d2))
                    if s > kill_step and has:
                        V.append(C.viol(f"pid {vp} was killed by the IBM at step {kill_step} but is still in the record of step {s}", **d2))
                if len(V) > 3:
                    break
        _ = first_step
    nontrivial = ns >= 2 and (late > 0 or kill_step is not None)
    sample = dict(desc, module_spellings=modspec, late_release_step=late, kill_step=kill_step,
                  first_events=[list(c[:2]) for c in segments[0][1][:14]] if segments else [])
    return C.result(V[:3], sit, cnt, nontrivial=nontrivial, key=str({k: v for k, v in case.items() if k != "idx"}) + str(case["idx"] % 7), sample=sample)
