"""C13 Clock arithmetic: steps/times convert consistently; period spellings agree.

Monitor: icontract class invariant on the real TimeKeeper (running clock == step2time(step) after
every public call) + an integer-seconds reference model compared after every operation."""

from __future__ import annotations

import datetime
import re
import itertools
from pathlib import Path
from typing import Any

import numpy as np

from vmon import common as C

LEVEL = "exploration"
TECHNIQUE = "runtime monitoring: icontract invariant on TimeKeeper + integer-seconds reference model after every operation; exhaustive small lattice in the thorough tier"
LEVEL_TEXT = ("Every TimeKeeper built (all start/stop/reference on a 1 s lattice in a bounded window in the thorough tier, random larger ones in both) "
              "is stepped through its whole run under an icontract invariant and compared operation by operation with a python-int model; "
              "all spellings of a period are cross-checked and malformed ones must raise ValueError.")
LEVEL_NOTE = "Trusts numpy datetime64 arithmetic for decoding results and icontract's invariant dispatch (evaluation count is reported; zero => inconclusive)."
RULE = ("case = chunk of (start, stop, dt, reference, direction) combinations; thorough adds the exhaustive lattice start,stop in 0..40 s, dt in 1..7 s, "
        "reference in {none, start-5, start+3}; every combination is stepped Nsteps+2 times and probed at steps -5..Nsteps+5. Non-trivial: Nsteps >= 1; "
        "distinct by (duration, dt, direction, reference offset).")
MANDATORY = ["duration2iso_of_a_day_or_more", "times_given_as_aware_datetimes_with_a_utc_offset", "naive_datetime_under_a_non_UTC_time_zone", "warm_start_from_a_file_with_the_time_axis_in_other_units", "reference_time_1970-01-01", "requested_reference_time_compared_with_the_file", "warm_start_clock_checked", "zero_period_spellings", "reference_time_decades_before_the_run", "output_period_not_a_whole_number_of_steps", "output_file_time_values_checked", "forward", "reversed", "dt_not_dividing", "explicit_reference", "negative_steps_probed", "invariant_evaluations",
             "period_spellings_compared", "malformed_rejected", "resets_checked", "positioned_clock_updates"]
ASSUMPTIONS = ["step2nctime is exercised with the documented units s, m, h only",
               "negative periods and a trailing newline are accepted by normalize_period and are not called malformed by the property"]
EXHAUSTIVE = {"quick": False, "thorough": False}
TIMEOUT = {"quick": 600, "thorough": 3000}
EPOCH = np.datetime64("2000-01-01T00:00:00", "s")
UNIX0 = int((np.datetime64("1970-01-01T00:00:00", "s") - EPOCH) / np.timedelta64(1, "s"))

MALFORMED = ["", "PT", "1H", "PT1S1H", "PT1.5H", "P1D", "3600", 3600.0, None, [1, "x"], [1.5, "h"], [1, "h", 2], "PT-1H", "T1H", "PT1H ", {"h": 1}]


def gen_cases(tier: str, seed: int) -> list[dict[str, Any]]:
    cases = []
    nrand = 40 if tier == "quick" else 4000
    for i in range(nrand):
        cases.append(dict(kind="random", seed=seed, idx=i, n=60))
    if tier == "thorough":
        for s in range(0, 41):
            cases.append(dict(kind="lattice", s=s, emax=40))
    else:
        for s in (0, 3, 7):
            cases.append(dict(kind="lattice", s=s, emax=9))
    cases.append(dict(kind="periods", seed=seed, n=300 if tier == "quick" else 5000))
    # the observable "time coordinate of output files": end-to-end runs, also with an output period that is not a whole number of steps
    for i in range(8 if tier == "quick" else 400):
        cases.append(dict(kind="outfile", seed=seed, idx=i))
    return cases


class InvariantBroken(Exception):
    _vmon_target = True  # a broken contract is a verdict about the code under test, also when it fires inside a ladim run


_state: dict[str, Any] = dict(n=0, installed=False)


def clock_matches_step(self) -> bool:
    _state["n"] += 1
    if _state.get("suspended"):
        return True  # inside Model.__init__, which positions the clock of a warm start in two assignments; judged again when it returns
    return bool(self.time == self.step2time(self.step))


def _install():
    import icontract  # noqa: PLC0415
    import ladim.timekeeper as tk  # noqa: PLC0415

    if not _state["installed"]:
        icontract.invariant(clock_matches_step, error=InvariantBroken)(tk.TimeKeeper)
        import ladim.model as lm  # noqa: PLC0415

        orig_init = lm.Model.__init__

        def init_observed(self, *a, **k):
            _state["suspended"] = _state.get("suspended", 0) + 1
            try:
                orig_init(self, *a, **k)
            finally:
                _state["suspended"] -= 1
            if not _state["suspended"] and not clock_matches_step(self.timer):
                raise InvariantBroken("running clock != step2time(step) after Model.__init__")

        lm.Model.__init__ = init_observed
        _state["installed"] = True
    return tk


def _check_combo(tk, S: int, E: int, d: int, R: int | None, dtspell: Any, V: list, sit: dict, cnt: dict, keys: set) -> None:
    try:
        _check_combo0(tk, S, E, d, R, dtspell, V, sit, cnt, keys)
    except InvariantBroken as e:
        V.append(C.viol("running clock != step2time(step) (icontract invariant on TimeKeeper)",
                        combo=dict(S=S, E=E, dt=d, R=R), err=str(e)[:200]))


def _check_combo0(tk, S: int, E: int, d: int, R: int | None, dtspell: Any, V: list, sit: dict, cnt: dict, keys: set) -> None:
    """One TimeKeeper against the integer model.  S, E, R are seconds after EPOCH."""
    rev = E < S
    sgn = -1 if rev else 1
    start = EPOCH + np.timedelta64(S, "s")
    stop = EPOCH + np.timedelta64(E, "s")
    kw: dict[str, Any] = dict(start=str(start), stop=str(stop), dt=dtspell, time_reversal=rev)
    if R is not None:
        kw["reference"] = str(EPOCH + np.timedelta64(R, "s"))
    if (S + E + d) % 9 == 0:
        # start, stop (and reference) given as time-zone aware datetimes (what an unquoted `2000-01-02 05:00:00+02:00` in a YAML or TOML file becomes):
        # the instants are the same ones
        tz_ = datetime.timezone(datetime.timedelta(hours=[2, -5, 5][(S + E) % 3], minutes=[0, 0, 30][(S + E) % 3]))
        for k_ in ("start", "stop", "reference"):
            if k_ in kw:
                kw[k_] = datetime.datetime.fromisoformat(kw[k_] + "+00:00").astimezone(tz_)
        sit["times_given_as_aware_datetimes_with_a_utc_offset"] = sit.get("times_given_as_aware_datetimes_with_a_utc_offset", 0) + 1
    desc = dict(start=str(start), stop=str(stop), dt=d, reference=str(kw.get("reference")), reversed=rev)
    try:
        import warnings as _warnings  # noqa: PLC0415

        with _warnings.catch_warnings():
            _warnings.simplefilter("ignore")
            t = tk.TimeKeeper(**kw)
    except InvariantBroken as e:
        V.append(C.viol("running clock != step2time(step) right after construction", combo=desc, err=str(e)[:200]))
        return
    except BaseException as e:  # noqa: BLE001
        V.append(C.viol(f"valid clock set-up refused: {type(e).__name__}: {e}", combo=desc))
        return
    ns = abs(E - S) // d
    Rm = R if R is not None else min(S, E)
    cnt["timekeepers"] = cnt.get("timekeepers", 0) + 1
    sit["reversed" if rev else "forward"] = sit.get("reversed" if rev else "forward", 0) + 1
    if abs(E - S) % d:
        sit["dt_not_dividing"] = sit.get("dt_not_dividing", 0) + 1
    if R is not None:
        sit["explicit_reference"] = sit.get("explicit_reference", 0) + 1
    if R == UNIX0:
        sit["reference_time_1970-01-01"] = sit.get("reference_time_1970-01-01", 0) + 1
    if ns >= 1:
        keys.add((abs(E - S), d, rev, None if R is None else R - S))

    def sec(x) -> int:
        return int((np.datetime64(x, "s") - EPOCH) / np.timedelta64(1, "s"))

    def bad(msg, **kw2):
        V.append(C.viol(msg, combo=desc, **kw2))

    if t.Nsteps != ns:
        bad(f"Nsteps = {t.Nsteps}, floor(|stop-start|/dt) = {ns}")
    if t.step != -1 or sec(t.time) != S - sgn * d:
        bad(f"before the first update: step {t.step}, time {t.time}; expected -1, {EPOCH + np.timedelta64(S - sgn * d, 's')}")
    try:
        for k in range(min(ns + 2, 60)):
            t.update()
            cnt["updates"] = cnt.get("updates", 0) + 1
            if t.step != k or sec(t.time) != S + sgn * k * d:
                bad(f"after update {k + 1}: step {t.step}, clock {t.time}; expected step {k} at {EPOCH + np.timedelta64(S + sgn * k * d, 's')}")
                break
            for u, div in (("s", 1), ("m", 60), ("h", 3600)):
                got = t.nctime(u)
                want = (S + sgn * k * d - Rm) / div
                if abs(got - want) > 1e-9 * max(1.0, abs(want)):
                    bad(f"nctime('{u}') at step {k} = {got}, offset from reference = {want}")
                    break
    except InvariantBroken as e:
        bad("running clock != step2time(step) (icontract invariant)", err=str(e)[:200])
    # reset() puts the clock back to the start: the clock/step pair must stay consistent and keep stepping
    try:
        t.reset()
        sit["resets_checked"] = sit.get("resets_checked", 0) + 1
        if sec(t.time) != S or t.step != 0:
            bad(f"after reset(): step {t.step}, clock {t.time}; the clock reads the start time, i.e. step 0")
        t.update()
        if sec(t.time) != S + sgn * (t.step) * d:
            bad(f"first update after reset(): step {t.step}, clock {t.time}")
    except InvariantBroken as e:
        bad("after reset(): running clock != step2time(step) (icontract invariant)", err=str(e)[:200])
    # the warm start positions the clock by assignment (Model.__init__: timer.step = 0; timer.time = step2time(0)) and steps on
    try:
        k0 = 0
        tt0 = t.step2time(k0)  # computed first: the invariant is evaluated around every public call
        t.step = k0
        t.time = tt0
        for k in range(1, 4):
            t.update()
            sit["positioned_clock_updates"] = sit.get("positioned_clock_updates", 0) + 1
            if t.step != k0 + k or sec(t.time) != S + sgn * (k0 + k) * d or abs(t.nctime("s") - (S + sgn * (k0 + k) * d - Rm)) > 1e-9:
                bad(f"clock positioned at step {k0} by assignment (as the warm start does), after {k} updates: step {t.step}, clock {t.time}, nctime {t.nctime('s')}; "
                    f"expected step {k0 + k} at {EPOCH + np.timedelta64(S + sgn * (k0 + k) * d, 's')}")
                break
    except InvariantBroken as e:
        bad("clock positioned by assignment (as the warm start does): running clock != step2time(step) after update()", err=str(e)[:200])
    for n in range(-5, min(ns, 50) + 6):
        cnt["probes"] = cnt.get("probes", 0) + 1
        if n < 0:
            sit["negative_steps_probed"] = sit.get("negative_steps_probed", 0) + 1
        tt = t.step2time(n)
        if sec(tt) != S + sgn * n * d:
            bad(f"step2time({n}) = {tt}, expected {EPOCH + np.timedelta64(S + sgn * n * d, 's')}")
            break
        back = t.time2step(tt)
        if back != n:
            bad(f"time2step(step2time({n})) = {back}")
            break
        if t.time2step(str(tt)) != n or t.time2step(datetime.datetime.fromisoformat(str(tt))) != n:
            bad(f"time2step of the iso string / datetime of step {n} differs from {n}")
            break
        if (S + d + n) % 7 == 0:
            # model times carry no time zone: a (naive) datetime means the same instant whatever zone the process happens to run in
            import os  # noqa: PLC0415
            import time as _time  # noqa: PLC0415

            old_tz = os.environ.get("TZ")
            zone = ["CET-1", "EST5", "IST-5:30"][(S + n) % 3]
            os.environ["TZ"] = zone
            _time.tzset()
            try:
                got_tz = t.time2step(datetime.datetime.fromisoformat(str(tt)))
            finally:
                if old_tz is None:
                    os.environ.pop("TZ", None)
                else:
                    os.environ["TZ"] = old_tz
                _time.tzset()
            sit["naive_datetime_under_a_non_UTC_time_zone"] = sit.get("naive_datetime_under_a_non_UTC_time_zone", 0) + 1
            if got_tz != n:
                bad(f"time2step(datetime of step {n}) = {got_tz} when the process runs in time zone {zone}")
                break
        if t.step2isotime(n) != str(EPOCH + np.timedelta64(S + sgn * n * d, "s")):
            bad(f"step2isotime({n}) = {t.step2isotime(n)}")
            break
        for u, div in (("s", 1), ("m", 60), ("h", 3600)):
            got = t.step2nctime(n, u)
            want = (S + sgn * n * d - Rm) / div
            if abs(got - want) > 1e-9 * max(1.0, abs(want)):
                bad(f"step2nctime({n},'{u}') = {got}, expected {want}")
                break
    for u, name in (("s", "seconds"), ("m", "minutes"), ("h", "hours")):
        want = f"{name} since {EPOCH + np.timedelta64(Rm, 's')}"
        if t.cf_units(u) != want:
            bad(f"cf_units('{u}') = {t.cf_units(u)!r}, expected {want!r}")


def _spell(d: int, rng) -> Any:
    """One of the accepted spellings of d seconds."""
    opts: list[Any] = [d, np.timedelta64(d, "s"), datetime.timedelta(seconds=d), [d, "s"]]
    if d % 60 == 0:
        opts.append([d // 60, "m"])
    if d % 3600 == 0:
        opts.append([d // 3600, "h"])
    h, r = divmod(d, 3600)
    m, s = divmod(r, 60)
    iso = "PT" + (f"{h}H" if h else "") + (f"{m}M" if m else "") + (f"{s}S" if s else "")
    if iso != "PT":
        opts.append(iso)
    opts.append(f"PT{d}S")
    return opts[int(rng.integers(len(opts)))]


def _periods(case, V, sit, cnt, keys):
    from ladim.timekeeper import normalize_period  # noqa: PLC0415

    rng = C.rng_for(case["seed"], 13, 999)
    one = np.timedelta64(1, "s")
    for i in range(case["n"]):
        h = int(rng.choice([0, 0, 1, 2, 25, 100]))
        m = int(rng.choice([0, 0, 1, 59, 60, 90]))
        s = int(rng.choice([0, 0, 1, 30, 59, 3600, 86400]))
        if i < 3:
            h, m, s = [(0, 0, 1), (1, 0, 0), (0, 1, 0)][i]
        total = 3600 * h + 60 * m + s
        if total == 0:
            # the zero period in all its spellings
            for sp in (0, np.timedelta64(0, "s"), datetime.timedelta(0), [0, "s"], [0, "m"], "PT0S", "PT0M", "PT0H", "PT0H0M0S", "PT00M"):
                cnt["period_calls"] = cnt.get("period_calls", 0) + 1
                try:
                    got = normalize_period(sp)
                except Exception as e:  # noqa: BLE001
                    V.append(C.viol(f"accepted spelling {sp!r} of the zero period rejected: {type(e).__name__}: {e}"))
                    continue
                sit["zero_period_spellings"] = sit.get("zero_period_spellings", 0) + 1
                if got / one != 0:
                    V.append(C.viol(f"normalize_period({sp!r}) = {got!r}, the duration is 0 s"))
            continue
        # the spelling ladim itself writes for a duration (log lines): read with an independent ISO 8601 reader it is the same duration, also beyond a day
        from ladim.timekeeper import duration2iso  # noqa: PLC0415

        for td_ in (np.timedelta64(total, "s"), datetime.timedelta(seconds=total)):
            txt = duration2iso(td_)
            mm = re.fullmatch(r"P(?:(\d+)D)?(?:T(?:(\d+)H)?(?:(\d+)M)?(?:(\d+(?:\.\d+)?)S)?)?", str(txt))
            back = None if (mm is None or str(txt) in ("P", "PT")) else 86400 * int(mm.group(1) or 0) + 3600 * int(mm.group(2) or 0) + 60 * int(mm.group(3) or 0) + float(mm.group(4) or 0)
            sit["duration2iso_read_back"] = sit.get("duration2iso_read_back", 0) + 1
            if total >= 86400:
                sit["duration2iso_of_a_day_or_more"] = sit.get("duration2iso_of_a_day_or_more", 0) + 1
            if back is None or back != total:
                V.append(C.viol(f"duration2iso({td_!r}) = {txt!r}, which reads as {back} s; the duration is {total} s"))
        spellings: list[Any] = [total, np.timedelta64(total, "s"), datetime.timedelta(seconds=total), [total, "s"], f"PT{total}S"]
        iso = "PT" + (f"{h}H" if h else "") + (f"{m}M" if m else "") + (f"{s}S" if s else "")
        spellings.append(iso)
        if total % 60 == 0:
            spellings += [[total // 60, "m"], f"PT{total // 60}M", np.timedelta64(total // 60, "m")]
        if total % 3600 == 0:
            spellings += [[total // 3600, "h"], f"PT{total // 3600}H", datetime.timedelta(hours=total // 3600)]
        # zero-valued fields inside an ISO string
        spellings.append(f"PT{h}H{m}M{s}S")
        for sp in spellings:
            cnt["period_calls"] = cnt.get("period_calls", 0) + 1
            try:
                got = normalize_period(sp)
            except Exception as e:  # noqa: BLE001
                V.append(C.viol(f"accepted spelling {sp!r} of {total} s rejected: {type(e).__name__}: {e}"))
                continue
            sit["period_spellings_compared"] = sit.get("period_spellings_compared", 0) + 1
            if got / one != total or not isinstance(got, np.timedelta64):
                V.append(C.viol(f"normalize_period({sp!r}) = {got!r}, the duration is {total} s"))
        keys.add(("period", total))
    for bad in MALFORMED:
        cnt["period_calls"] = cnt.get("period_calls", 0) + 1
        try:
            got = normalize_period(bad)
        except ValueError:
            sit["malformed_rejected"] = sit.get("malformed_rejected", 0) + 1
            continue
        except Exception as e:  # noqa: BLE001
            V.append(C.viol(f"malformed period {bad!r} raised {type(e).__name__} instead of ValueError: {e}"))
            continue
        V.append(C.viol(f"malformed period {bad!r} accepted as {got!r}"))


def _outfile(case, wd, V, sit, cnt, keys):
    """The CF time value written for a record is the offset of the model time at which it was written from the reference time."""
    from vmon.hooks import Hooks  # noqa: PLC0415
    from vmon.scenario import read_outputs, run_scenario, tadd  # noqa: PLC0415

    rng = C.rng_for(case["seed"], 13, case["idx"], 5)
    dt = int(rng.choice([60, 120, 600]))
    ns = int(rng.integers(5, 14))
    rev = bool(case["idx"] % 4 == 3)
    mult = [1.5, 2.0, 2.5, 1.0, 3.0, 1.25][case["idx"] % 6]  # output period in steps, whole or not
    per_s = int(round(mult * dt))
    spell = [per_s, [per_s, "s"], f"PT{per_s // 60}M{per_s % 60}S" if per_s % 60 else [per_s // 60, "m"]][case["idx"] % 3]
    ref = [None, "2020-01-01T00:00:00", "2020-03-05T12:00:00", "1970-01-01T00:00:00", "1900-01-01T00:00:00"][case["idx"] % 5]
    sit["reference_time_decades_before_the_run"] = int(case["idx"] % 5 >= 3)
    start = C.T0
    sg = -1 if rev else 1
    lo, hi = sorted([start, str(tadd(start, sg * (ns + 1) * dt))])
    w = C.still_world(lo, hi, imax=10, jmax=9, N=2)
    run = dict(start=start, stop=str(tadd(start, sg * ns * dt)), dt=dt, reversed=rev, reference=ref, advection="EF",
               release=dict(columns=["release_time", "X", "Y", "Z"], rows=[[start, 4.5, 4.5, 1.0]], header=True), output=dict(period=spell))
    if case["idx"] % 4 in (0, 3):
        run["output"]["numrec"] = 2
    written: list[np.datetime64] = []
    with Hooks() as hk:
        from ladim.out_netcdf import Output  # noqa: PLC0415

        hk.wrap(Output, "write", lambda self, state: written.append(np.datetime64(self.timer.time, "s")), None)
        res, conf, _w = run_scenario(dict(world=w, run=run), wd)
    desc = dict(kind="outfile", dt=dt, steps=ns, output_period=spell, reversed=rev, reference=ref)
    sit["output_period_not_a_whole_number_of_steps"] = int(mult != int(mult))
    if not res.ok:
        V.append(C.viol(f"run did not complete: {res.exc}", tb=res.tb[-1000:], **desc))
        return
    times = [r.time for f in read_outputs(res.outputs) for r in f.records]
    sit["output_file_time_values_checked"] = len(times)
    if case["idx"] % 4 in (0, 3) and len(res.outputs) > 1:
        # the run taken up again from its first output file: the clock goes on from that file's last record, in the run's direction
        wfile = res.outputs[0]
        if case["idx"] % 8 in (0, 3):
            # the restart file after post-processing that re-encoded its time axis (minutes / hours / days since the same reference): a CF time value
            # is an offset in the unit the file names
            import shutil  # noqa: PLC0415
            from netCDF4 import Dataset as _DS  # noqa: PLC0415

            wfile = wd / "restart_reencoded.nc"
            shutil.copy(res.outputs[0], wfile)
            unit, div = [("minutes", 60.0), ("hours", 3600.0), ("days", 86400.0)][(case["idx"] // 8) % 3]
            with _DS(wfile, "r+") as nc_:
                tv_ = nc_.variables["time"]
                tv_.set_auto_maskandscale(False)
                vals_ = np.array(tv_[:], float)
                tv_[:] = vals_ / div
                tv_.units = unit + " since" + tv_.units.split("since")[1]
            sit["warm_start_from_a_file_with_the_time_axis_in_other_units"] = 1
        run2 = dict(run, warm_start=dict(filename=str(wfile), variables=[]))
        run2["output"] = dict(run["output"], filename="out_001.nc")
        res2, _c2, _w2 = run_scenario(dict(world=None, run=run2), wd / "warm", world=_w)
        if not res2.ok:
            V.append(C.viol(f"warm start from {res.outputs[0].name} did not complete: {res2.exc}", tb=res2.tb[-1000:], **desc))
        else:
            t_re = read_outputs(res.outputs[:1])[0].records[-1].time
            want2 = [t for t in times if (t < t_re if rev else t > t_re)]
            got2 = [r.time for f in read_outputs(res2.outputs) for r in f.records]
            stop_t = np.datetime64(run["stop"], "s")
            sit["warm_start_clock_checked"] = 1
            if [t for t in got2 if t != stop_t] != [t for t in want2 if t != stop_t]:
                V.append(C.viol(f"run warm-started at {t_re}: its records carry the times {[str(t) for t in got2][:6]}, the uninterrupted run goes on with {[str(t) for t in want2][:6]}", **desc))
    if ref is not None:
        # a reference time given by the user is the one the file's time axis counts from, the values being the offsets from it
        for f in read_outputs(res.outputs):
            uref = np.datetime64(f.time_units.split("since")[1].strip(), "s")
            sit["requested_reference_time_compared_with_the_file"] = sit.get("requested_reference_time_compared_with_the_file", 0) + 1
            if uref != np.datetime64(ref, "s") or not f.time_units.startswith("seconds since"):
                V.append(C.viol(f"{f.path.name}: time units {f.time_units!r}, the configured reference time is {ref}", **desc))
                break
            vals = [float(r.timeval) for r in f.records]
            want_v = [float((np.datetime64(r.time, "s") - np.datetime64(ref, "s")) / np.timedelta64(1, "s")) for r in f.records]
            if vals != want_v:
                V.append(C.viol(f"{f.path.name}: time values {vals[:5]} are not the offsets {want_v[:5]} from the configured reference time {ref}", **desc))
                break
    if [str(t) for t in times] != [str(t) for t in written]:
        V.append(C.viol(f"time coordinate of the output file reads {[str(t) for t in times][:6]}, the records were written at model times {[str(t) for t in written][:6]}", **desc))
    keys.add(("outfile", dt, ns, str(spell), rev, ref))


def run_case(case: dict[str, Any], wd: Path) -> dict[str, Any]:
    tk = _install()
    if case["kind"] == "outfile":
        V0: list = []
        sit0: dict[str, int] = {}
        cnt0: dict[str, int] = {}
        keys0: set = set()
        _outfile(case, wd, V0, sit0, cnt0, keys0)
        return C.result(V0[:3], sit0, cnt0, nontrivial=True, key=str(case), sample=dict(case=case))
    V: list = []
    sit: dict[str, int] = {}
    cnt: dict[str, int] = {}
    keys: set = set()
    n0 = _state["n"]
    if case["kind"] == "periods":
        _periods(case, V, sit, cnt, keys)
    elif case["kind"] == "lattice":
        S = case["s"]
        for E, d, Roff in itertools.product(range(0, case["emax"] + 1), range(1, 8), (None, -5, 3)):
            if E == S:
                continue
            _check_combo(tk, S, E, d, None if Roff is None else S + Roff, d, V, sit, cnt, keys)
            if len(V) > 5:
                break
    else:
        rng = C.rng_for(case["seed"], 13, case["idx"])
        for _ in range(case["n"]):
            d = int(rng.choice([1, 7, 30, 60, 600, 900, 3600, 5400, 86400]))
            S = int(rng.integers(0, 10**8))
            ns = int(rng.integers(0, 45))
            rem = int(rng.integers(0, d)) if rng.random() < 0.5 else 0
            E = S + (1 if rng.random() < 0.5 else -1) * (ns * d + rem)
            if E == S:
                E = S + d
            R = None if rng.random() < 0.4 else S + int(rng.integers(-10**6, 10**6))
            if rng.random() < 0.1:
                R = UNIX0 + int(rng.choice([0, 0, 1, -1]))  # reference times at (and next to) 1970-01-01T00:00:00, where a time value of 0 is a time like any other
            _check_combo(tk, S, E, d, R, _spell(d, rng), V, sit, cnt, keys)
            if len(V) > 5:
                break
    sit["invariant_evaluations"] = _state["n"] - n0
    key = f"{case['kind']}|{case.get('s', case.get('idx', 0))}|{len(keys)}"
    sample = dict(case=case, timekeepers=cnt.get("timekeepers", 0), updates=cnt.get("updates", 0), probes=cnt.get("probes", 0),
                  distinct_parameter_points=len(keys), example=sorted(map(str, keys))[:3])
    cnt["distinct_parameter_points"] = len(keys)
    return C.result(V[:6], sit, cnt, nontrivial=len(keys) > 0, key=key, sample=sample)
