"""C14 Particles are independent; runs are reproducible and time-shift invariant.

Metamorphic pair monitors over real end-to-end runs: per-particle trajectories (keyed by the release-row tag `rid`)
extracted from the output files of a base run and of variants (same run repeated; other rows removed / added /
permuted; other particles killed by the IBM; every time shifted by whole steps) must be bit-for-bit equal."""

from __future__ import annotations

from pathlib import Path
from typing import Any

import numpy as np

from vmon import common as C
from vmon import outcheck
from vmon.scenario import all_records, read_outputs, run_scenario, tadd

LEVEL = "exploration"
TECHNIQUE = "runtime monitoring: metamorphic pair monitors (repeat, row subset/addition/permutation, deaths of other particles, whole-step time shift) over f8 output files, trajectories keyed by a unique row tag"
LEVEL_TEXT = ("Base scenarios with depth-dependent sheared, time-dependent currents over variable bathymetry, islands, late releases, scalar forcing, an IBM with age and tag-directed kills, "
              "sparse and dense output every step; for each base 4 (quick) / 6 (thorough) variant runs are executed and every surviving row's trajectory and variables are compared "
              "bit for bit (diffusion off). Deaths followed by an output step are generated on purpose (kill at step s, output at s+1).")
LEVEL_NOTE = "Equality is on f8 output, so 'bit for bit' is exact. Trusts the row tag column (an int instance variable) to follow the particle (C05)."
RULE = ("case = base scenario + variant list. Non-trivial: at least one particle placed behind a removed/killed one in the state arrays survives for >= 3 further records "
        "(the cross-talk pattern); distinct by base parameters.")
MANDATORY = ["lonlat_rows_sharing_a_longitude_or_a_latitude", "removed_rows_followed_among_more_than_20_particles", "rows_with_mult_counted", "time_shift_of_a_century_or_more_pairs", "restart_in_dense_layout_pairs", "discrete_release_with_frequency_entry", "repeat_with_stateful_plugin_pairs", "interleaved_release_times_pairs", "shallow_only_pairs", "killed_newest_pairs", "pid_to_row_mapping_checked", "vertical_advection", "deactivated_rows_alone_pairs", "lonlat_release_pairs", "reversed_time", "subgrid_off_diagonal", "float_day_time_axis", "repeat_pairs", "subset_pairs", "added_rows_pairs", "permuted_pairs", "killed_others_pairs", "time_shift_pairs", "deactivated_others_pairs", "empty_state_before_late_release_pairs", "death_then_output",
             "trajectory_points_compared", "dense", "sparse", "survivor_behind_removed"]
ASSUMPTIONS = ["diffusion off (as the property states)"]
TIMEOUT = {"quick": 900, "thorough": 3400}


def gen_cases(tier: str, seed: int) -> list[dict[str, Any]]:
    n = 48 if tier == "quick" else 2500
    cases = [dict(seed=seed, idx=i, nvar=4 if tier == "quick" else 6) for i in range(n)]
    # releases given by longitude/latitude on a curvilinear grid: a row's start position must not depend on the other rows
    cases += [dict(seed=seed, idx=i, kind="lonlat") for i in range(12 if tier == "quick" else 400)]
    return cases


def run_lonlat(case: dict[str, Any], wd: Path) -> dict[str, Any]:
    from vmon import world as W  # noqa: PLC0415
    from vmon.props.C16 import polar_spec  # noqa: PLC0415

    rng = C.rng_for(case["seed"], 142, case["idx"])
    imax, jmax = int(rng.integers(16, 30)), int(rng.integers(14, 24))
    pol = polar_spec(rng, imax, jmax)
    dt = 600
    w = dict(imax=imax, jmax=jmax, N=2, t0=str(tadd(C.T0, -dt)), frames=[0, 10 * dt], files=[2], vel=dict(kind="const", u=0.1, v=0.05), metric=pol, lonlat=pol)
    n = int(rng.integers(6, 14))
    X = rng.uniform(3.0, imax - 4.0, size=n)
    Y = rng.uniform(3.0, jmax - 4.0, size=n)
    lon, lat = W.polar_lonlat(X, Y, pol)
    rows = [dict(rid=k + 1, lon=float(lon[k]), lat=float(lat[k])) for k in range(n)]
    # stations on one meridian / one parallel: row 2 shares its longitude with row 1, the last row its latitude with the last but one (half a cell apart)
    dl_ = 0.5 * pol["dx"] / 111.2e3
    rows[1] = dict(rid=2, lon=rows[0]["lon"], lat=rows[0]["lat"] + dl_)
    rows[-1] = dict(rid=n, lon=rows[-2]["lon"] + dl_ / max(0.2, float(np.cos(np.radians(rows[-2]["lat"])))), lat=rows[-2]["lat"])
    V: list = []
    sit: dict[str, int] = {}
    cnt: dict[str, int] = {}
    desc = dict(kind="lonlat", idx=case["idx"], grid=[imax, jmax], rows=n)

    def run(tag, rws):
        rel = [[C.T0, r["lon"], r["lat"], 1.0, r["rid"]] for r in rws]
        r_ = dict(start=C.T0, stop=str(tadd(C.T0, 3 * dt)), dt=dt, advection="EF", release=dict(columns=["release_time", "lon", "lat", "Z", "rid"], rows=rel, header=True),
                  state=dict(instance_variables=dict(rid="int")), output=dict(period=dt, instance=dict(pid="i4", X="f8", Y="f8", Z="f8", rid="i4")))
        res, conf, _w = run_scenario(dict(world=w, run=r_), wd / tag)
        if not res.ok:
            V.append(C.viol(f"lon/lat release variant '{tag}' did not complete: {res.exc}", **desc))
            return None
        recs = all_records(read_outputs(res.outputs))
        return {int(rid): [(float(r.vars["X"][k]), float(r.vars["Y"][k])) for r in recs for k in np.nonzero(np.asarray(r.vars["rid"]) == rid)[0]] for rid in recs[0].vars["rid"]}

    base = run("base", rows)
    sit["lonlat_rows_sharing_a_longitude_or_a_latitude"] = 1
    if base:
        for tag, rws in (("one row alone", rows[:1]), ("half of the rows", rows[::2]), ("rows reversed", rows[::-1]), ("last rows only", rows[-2:])):
            o = run(tag.replace(" ", "_"), rws)
            if not o:
                continue
            for r in rws:
                sit["lonlat_release_pairs"] = sit.get("lonlat_release_pairs", 0) + 1
                if base.get(r["rid"]) != o.get(r["rid"]):
                    a, b_ = base[r["rid"]][0], o[r["rid"]][0]
                    V.append(C.viol(f"release by lon/lat, {tag}: row {r['rid']} (lon {r['lon']:.6f}, lat {r['lat']:.6f}) starts at ({b_[0]!r},{b_[1]!r}) but at ({a[0]!r},{a[1]!r}) "
                                    f"when released together with all {n} rows: its trajectory depends on the other release rows", **desc))
                    break
            if V:
                break
    return C.result(V[:2], sit, cnt, nontrivial=True, key=f"lonlat|{case['idx']}", sample=desc)


def base_spec(case: dict[str, Any]):
    rng = C.rng_for(case["seed"], 14, case["idx"])
    imax, jmax, N = 20, 16, 4
    dt = 600
    nsteps = int(rng.integers(8, 16))
    dx = 1000.0
    sp = float(rng.uniform(0.2, 0.5)) * dx / dt
    flow = [dict(kind="gyre", A=sp, kx=0.4, ky=0.5, ratio=0.8), dict(kind="jet", u=0.6 * sp, v=0.5 * sp, shear=0.4),
            dict(kind="rotation", omega=sp / 6.0, xc=10.0, yc=8.0)][case["idx"] % 3]
    flow["profile"] = [float(x) for x in rng.uniform(-1.0, 1.0, size=N)]
    gaps = [int(g) for g in rng.choice([1, 2, 3, 4], size=8)]
    fr = [-int(rng.integers(0, 3))]
    while fr[-1] < nsteps + 1:
        fr.append(fr[-1] + gaps[len(fr) % 8])
    flow["frame_amp"] = [float(x) for x in rng.uniform(0.5, 1.5, size=len(fr))]
    land = [[int(rng.integers(3, jmax - 3)), int(rng.integers(3, imax - 3))] for _ in range(int(rng.integers(0, 5)))]
    world = dict(imax=imax, jmax=jmax, N=N, frames=[f * dt for f in fr], files=[len(fr)], vel=flow,
                 h=dict(kind="random", hmin=20.0, hmax=200.0, seed=case["idx"]), mask=dict(kind="explicit", land=land),
                 vert=dict(Vtransform=2, Vstretching=4, theta_s=4.0, theta_b=0.8, hc=15.0),
                 metric=dict(kind="uniform", dx=dx, dy=dx), scalars=dict(temp=dict(kind="random", seed=case["idx"], lo=0.0, hi=20.0)), scalar_store="f8")
    M = np.ones((jmax, imax))
    for j, i in land:
        M[j, i] = 0
    nrow = int(rng.integers(10, 22)) if case["idx"] % 4 != 1 else int(rng.integers(24, 31))  # a quarter of the bases hold more than 20 particles at a time
    rows = []
    rid = 0
    while len(rows) < nrow:
        x, y = float(np.round(rng.uniform(4, imax - 5), 3)), float(np.round(rng.uniform(4, jmax - 5), 3))
        if M[int(round(y)), int(round(x))] < 1:
            continue
        rid += 1
        step = int(rng.choice([0, 0, 0, 1, 3, 5]))
        rows.append(dict(step=step, X=x, Y=y, Z=float(np.round(rng.uniform(0, 150), 2)), rid=rid))
    # a few particles close to the surface (between the top level of their own column and that of the deepest column)
    for r_, z_ in zip([r for r in rows if r["step"] == 0][:3], (2.5, 3.5, 4.5)):
        r_["Z"] = z_
    rows.sort(key=lambda r: r["step"])
    if case["idx"] % 3 == 0:
        # a mult column: some rows stand for several (identical) particles, next to rows of the same release time that stand for one
        for r_ in rows:
            r_["mult"] = int(rng.choice([1, 1, 2, 3]))
        rows[0]["mult"], rows[1]["mult"] = 2, 1
    vadv = bool(case["idx"] % 4 == 2)
    if vadv:  # vertical advection: depth changes too, also for particles an IBM has switched off
        world["scalars"]["w"] = dict(kind="random", seed=case["idx"] + 7, lo=-0.004, hi=0.004, w_levels=True)
    layout = "dense" if case["idx"] % 4 == 3 else "sparse"
    # half of the bases store ocean_time as float days (frame times not exactly representable in that unit)
    tu = "days since 2019-12-01 00:00:00" if (case["idx"] // 2) % 2 else None
    return dict(world=world, rows=rows, dt=dt, nsteps=nsteps, scheme=["EF", "RK2", "RK4"][case["idx"] % 3], layout=layout, time_units=tu,
                reversed=bool(case["idx"] % 5 == 4), vadv=vadv, idlefreq=(1 + case["idx"] % 2) if case["idx"] % 3 == 2 else 0, subgrid=[2, imax - 1, 1, jmax - 2] if case["idx"] % 3 == 1 else None)


def make_scn(b: dict[str, Any], rows: list[dict[str, Any]], kill_tag: dict[str, list[int]], shift_steps: int = 0,
             deactivate_tag: dict[str, list[int]] | None = None) -> dict[str, Any]:
    dt = b["dt"]
    start = str(tadd(C.T0, shift_steps * dt))
    rev = bool(b.get("reversed"))
    sg = -1 if rev else 1
    w = dict(b["world"], t0=start)
    if rev:  # frames listed on the simulation axis: mirror them about the start, keep the amplitudes with their frames
        fr = b["world"]["frames"]
        order = sorted(range(len(fr)), key=lambda k: -fr[k])
        w["frames"] = [-fr[k] for k in order]
        w["vel"] = dict(b["world"]["vel"], frame_amp=[b["world"]["vel"]["frame_amp"][k] for k in order])
    if b.get("time_units"):
        w["time_units"] = b["time_units"]
    rel = [[str(tadd(start, sg * r["step"] * dt)), r["X"], r["Y"], r["Z"], r["rid"]] for r in rows]
    relcols = ["release_time", "X", "Y", "Z", "rid"]
    if any("mult" in r for r in rows):
        rel = [[q[0], int(r.get("mult", 1))] + q[1:] for q, r in zip(rel, rows)]
        relcols = ["release_time", "mult", "X", "Y", "Z", "rid"]
    run = dict(start=start, stop=str(tadd(start, sg * b["nsteps"] * dt)), dt=dt, reversed=rev, subgrid=b.get("subgrid"), advection=b["scheme"], extra_forcing=["temp"],
               release=dict(columns=relcols, rows=rel, header=True,
                            idle_frequency=(2 * dt if b.get("idlefreq") else 0), continuous_key_false=bool(b.get("idlefreq") == 2)),  # discrete release that still carries a release_frequency entry
               state=dict(instance_variables=dict(rid="int", age="float", temp="float"), particle_variables=dict(release_time="time"), default_values=dict(age=0.0, temp=0.0)),
               ibm=dict(module=C.REC_IBM, age=True, kill_tag=kill_tag, deactivate_tag=deactivate_tag or {}, log=False),
               output=dict(period=dt, layout=b["layout"], instance=dict(pid="i4", X="f8", Y="f8", Z="f8", rid="i4", age="f8", temp="f8"), particle=dict(release_time="f8")))
    if b.get("vadv"):
        run["vertical_advection"] = True
        run["extra_forcing"] = ["temp", "w"]
        run["state"]["instance_variables"]["w"] = "float"
        run["state"]["default_values"]["w"] = 0.0
    return dict(world=w, run=run)


def trajectories(recs, start: str, dt: int):
    """rid -> list of (step, X, Y, Z, age, temp) ; also order of rids in each record."""
    tr: dict[int, list[tuple]] = {}
    order = []
    t0 = np.datetime64(start, "s")
    for r in recs:
        step = abs(int((r.time - t0) / np.timedelta64(1, "s"))) // dt
        rids = np.asarray(r.vars["rid"]).astype(int)
        order.append(rids.tolist())
        for k, rid in enumerate(rids):
            tr.setdefault(int(rid), []).append((step, float(r.vars["X"][k]), float(r.vars["Y"][k]), float(r.vars["Z"][k]), float(r.vars["age"][k]), float(r.vars["temp"][k])))
    return tr, order


def run_case(case: dict[str, Any], wd: Path) -> dict[str, Any]:
    if case.get("kind") == "lonlat":
        return run_lonlat(case, wd)
    b = base_spec(case)
    rng = C.rng_for(case["seed"], 141, case["idx"])
    V: list = []
    sit: dict[str, int] = {}
    cnt: dict[str, int] = {}
    desc = dict(idx=case["idx"], scheme=b["scheme"], layout=b["layout"], nsteps=b["nsteps"], nrows=len(b["rows"]))
    sit[b["layout"]] = 1
    sit["float_day_time_axis"] = int(bool(b.get("time_units")))
    sit["reversed_time"] = int(bool(b.get("reversed")))
    sit["subgrid_off_diagonal"] = int(bool(b.get("subgrid")))
    sit["vertical_advection"] = int(bool(b.get("vadv")))
    sit["discrete_release_with_frequency_entry"] = int(bool(b.get("idlefreq")))

    def run(tag, rows, kill_tag, shift=0, deact=None, ibm_module=None):
        scn = make_scn(b, rows, kill_tag, shift, deact)
        if ibm_module:
            scn["run"]["ibm"]["module"] = ibm_module
        res, conf, world = run_scenario(scn, wd / tag)
        cnt["runs"] = cnt.get("runs", 0) + 1
        if not res.ok:
            V.append(C.viol(f"variant '{tag}' did not complete: {res.exc}", tb=res.tb[-1200:], **desc))
            return None
        recs = all_records(read_outputs(res.outputs))
        who: dict[int, int] = {}
        for r in recs:
            outcheck.check_record_pids(r, V, f"{tag}: ")
            for p_, rid_ in zip(np.asarray(r.pid).tolist(), np.asarray(r.vars["rid"]).astype(int).tolist()):
                if who.setdefault(int(p_), int(rid_)) != int(rid_) and len(V) < 3:
                    V.append(C.viol(f"{tag}: pid {p_} is the particle of release row {who[int(p_)]} in one record and of row {rid_} in the record at {r.time}: "
                                    f"the numbering is not a renumbering of the particles", **desc))
        sit["pid_to_row_mapping_checked"] = sit.get("pid_to_row_mapping_checked", 0) + len(who)
        out_ = trajectories(recs, scn["run"]["start"], b["dt"])
        # a particle the IBM removed at step s is in no record after step s - however many other particles there are
        nall = max((len(o_) for o_ in out_[1]), default=0)
        for ks_, vs_ in (kill_tag or {}).items():
            for v_ in vs_:
                pts_ = out_[0].get(int(v_), [])
                if not pts_ or pts_[0][0] > int(ks_):
                    continue  # released after that step: the IBM's removal did not concern it
                late_ = [q for q in pts_ if q[0] > int(ks_)]
                sit["removed_rows_followed"] = sit.get("removed_rows_followed", 0) + 1
                if nall > 20:
                    sit["removed_rows_followed_among_more_than_20_particles"] = sit.get("removed_rows_followed_among_more_than_20_particles", 0) + 1
                if late_ and len(V) < 3:
                    V.append(C.viol(f"{tag}: release row {v_} was removed by the IBM at step {ks_} but is in the records of steps {[q[0] for q in late_][:8]} "
                                    f"(largest record holds {nall} particles)", **desc))
        if any("mult" in r for r in rows):
            # every row yields its own mult particles, whatever the other rows of the same time say
            for r in rows:
                pts = out_[0].get(r["rid"], [])
                if pts and len(V) < 3:
                    c_ = sum(1 for q in pts if q[0] == pts[0][0])
                    sit["rows_with_mult_counted"] = sit.get("rows_with_mult_counted", 0) + int(r.get("mult", 1) != 1)
                    if c_ != int(r.get("mult", 1)):
                        V.append(C.viol(f"{tag}: release row {r['rid']} with mult = {r.get('mult', 1)} appears as {c_} particles in its first record "
                                        f"(rows of that time: {[(q['rid'], q.get('mult', 1)) for q in rows if q['step'] == r['step']][:8]})", **desc))
        return out_

    base = run("base", b["rows"], {})
    if base is None:
        return C.result(V, sit, cnt, nontrivial=True, key=str(case["idx"]), sample=desc)
    btr, border = base
    rids = [r["rid"] for r in b["rows"]]

    def compare(tag, other, keep_rids, sitname, shift=0, ref=None):
        otr, _ = other
        n = 0
        for rid in keep_rids:
            a = (ref[0] if ref else btr).get(rid, [])
            o = otr.get(rid, [])
            if a != o:
                k = next((i for i, (x, y) in enumerate(zip(a, o)) if x != y), min(len(a), len(o)))
                V.append(C.viol(f"{tag}: trajectory of release row {rid} differs from the base run at its record {k}: base {a[k] if k < len(a) else 'ended'} vs "
                                f"variant {o[k] if k < len(o) else 'ended'} (step, X, Y, Z, age, temp)", **desc))
                return
            n += len(a)
        sit[sitname] = sit.get(sitname, 0) + 1
        sit["trajectory_points_compared"] = sit.get("trajectory_points_compared", 0) + n

    variants = ["repeat", "kill", "subset", "shift", "add", "permute", "deactivate"][: case["nvar"] + 1]
    if case["nvar"] == 4:
        variants = ["kill", "add", "permute", "shift", "deactivate", "late_only", "kill_newest"] if case["idx"] % 2 else ["repeat", "kill", "subset", "deactivate", "kill_all_early", "shallow_only", "interleave"]
        if case["idx"] % 4 == 1:
            variants.append("repeat_stateful")
        if case["idx"] % 4 == 2:
            variants.append("restart_dense")
    else:
        variants += ["late_only", "kill_all_early", "shallow_only", "kill_newest", "interleave", "repeat_stateful", "restart_dense"]
    nontrivial = False
    for var in variants:
        if len(V) > 2:
            break
        if var == "repeat":
            o = run("repeat", b["rows"], {})
            if o:
                compare("same run repeated", o, rids, "repeat_pairs")
        elif var == "kill":
            # kill some rows (not the last ones in the state arrays) at step s; output follows at s+1
            early = [r["rid"] for r in b["rows"] if r["step"] == 0]
            victims = [int(x) for x in rng.choice(early[:-1] or early, size=min(max(1, len(early) // 3), len(early[:-1] or early)), replace=False)]
            s = int(rng.integers(0, max(1, b["nsteps"] - 4)))
            o = run("kill", b["rows"], {str(s): victims})
            if o:
                keep = [r for r in rids if r not in victims]
                compare(f"other particles (rows {victims}) killed by the IBM at step {s}", o, keep, "killed_others_pairs")
                sit["death_then_output"] = sit.get("death_then_output", 0) + 1
                # survivors located behind a victim in the state arrays, alive >= 3 records after the kill
                for rec_rids in border[s + 1:s + 2]:
                    pos = {rid: k for k, rid in enumerate(rec_rids)}
                    vpos = [pos[v] for v in victims if v in pos]
                    if vpos and any(pos[r] > min(vpos) and len([p for p in btr[r] if p[0] > s + 2]) >= 1 for r in keep if r in pos):
                        sit["survivor_behind_removed"] = sit.get("survivor_behind_removed", 0) + 1
                        nontrivial = True
        elif var == "shallow_only":
            keep_rows = [r for r in b["rows"] if r["Z"] <= 4.5 and r["step"] == 0]
            if keep_rows:
                o = run("shallow_only", keep_rows, {})
                if o:
                    compare("only the rows released close to the surface kept (all deeper particles removed)", o, [r["rid"] for r in keep_rows], "shallow_only_pairs")
        elif var == "kill_newest":
            # the newest particle (highest pid so far) is killed while older ones live on, and a later release follows two or more steps later
            U = sorted({r["step"] for r in b["rows"]})
            ks = [k for k in range(len(U) - 1) if U[k + 1] - U[k] >= 2]
            if ks:
                s = U[ks[0]]
                victim = [r["rid"] for r in b["rows"] if r["step"] == s][-1]
                o = run("kill_newest", b["rows"], {str(s): [victim]})
                if o:
                    compare(f"the newest particle (row {victim}) killed by the IBM at step {s}, next release at step {U[ks[0] + 1]}", o, [r for r in rids if r != victim], "killed_newest_pairs")
        elif var == "deactivate":
            # other particles become inactive (alive, not moved): they stay in the state arrays in front of the others
            early = [r["rid"] for r in b["rows"] if r["step"] == 0]
            victims = [int(x) for x in rng.choice(early[:-1] or early, size=min(max(1, len(early) // 3), len(early[:-1] or early)), replace=False)]
            s = int(rng.integers(0, max(1, b["nsteps"] - 4)))
            o = run("deactivate", b["rows"], {}, deact={str(s): victims})
            if o:
                keep = [r for r in rids if r not in victims]
                compare(f"other particles (rows {victims}) deactivated by the IBM at step {s}", o, keep, "deactivated_others_pairs")
                # the deactivated rows on their own (everybody present is inactive from step s on) against the same rows in company
                o2 = run("deactivated_alone", [r for r in b["rows"] if r["rid"] in victims], {}, deact={str(s): victims})
                if o2:
                    compare(f"rows {victims}, deactivated at step {s}, run without the other rows", o2, victims, "deactivated_rows_alone_pairs", ref=o)
                # the inactive ones themselves must stay where they were
                otr = o[0]
                for v_ in victims:
                    pts = [p for p in otr.get(v_, []) if p[0] > s]
                    if len({(p[1], p[2]) for p in pts}) > 1:
                        V.append(C.viol(f"row {v_} was deactivated at step {s} but keeps moving: {pts[:3]}", **desc))
                        break
        elif var == "late_only":
            # only the late rows: the state is empty during the first steps (the forcing must keep stepping in time)
            keep_rows = [r for r in b["rows"] if r["step"] > 0]
            if keep_rows:
                o = run("late_only", keep_rows, {})
                if o:
                    compare("all rows released at the start removed (state empty until the first late release)", o, [r["rid"] for r in keep_rows], "empty_state_before_late_release_pairs")
        elif var == "kill_all_early":
            # everybody present is killed before the late releases arrive: an interval without particles in the middle of the run
            late_steps = sorted({r["step"] for r in b["rows"] if r["step"] > 1})
            if late_steps:
                first_late = late_steps[-1]
                victims = [r["rid"] for r in b["rows"] if r["step"] < first_late]
                o = run("kill_all_early", b["rows"], {str(max(0, first_late - 3)): victims})
                if o:
                    compare(f"all earlier particles killed at step {max(0, first_late - 3)} (no particle until the release at step {first_late})", o,
                            [r["rid"] for r in b["rows"] if r["step"] >= first_late], "empty_state_before_late_release_pairs")
        elif var == "subset":
            keep_rows = [r for r in b["rows"] if rng.random() < 0.5] or b["rows"][:1]
            o = run("subset", keep_rows, {})
            if o:
                compare("other release rows removed", o, [r["rid"] for r in keep_rows], "subset_pairs")
        elif var == "add":
            extra = [dict(step=int(rng.choice([0, 2])), X=float(np.round(rng.uniform(5, 14), 3)), Y=float(np.round(rng.uniform(5, 10), 3)), Z=float(np.round(rng.uniform(0, 100), 2)), rid=1000 + k)
                     for k in range(4)]
            extra = [e for e in extra if [int(round(e["Y"])), int(round(e["X"]))] not in b["world"]["mask"]["land"]]
            rows2 = sorted(extra + b["rows"], key=lambda r: r["step"])  # new rows first within a time: shifts every position in the state arrays
            o = run("add", rows2, {})
            if o:
                compare("release rows added", o, rids, "added_rows_pairs")
        elif var == "permute":
            rows2 = []
            for s in sorted({r["step"] for r in b["rows"]}):
                grp = [r for r in b["rows"] if r["step"] == s]
                rows2 += [grp[k] for k in rng.permutation(len(grp))]
            o = run("permute", rows2, {})
            if o:
                compare("release rows permuted", o, rids, "permuted_pairs")
        elif var == "restart_dense":
            # first leg sparse and split, a particle with a low pid killed before the restart record; the continuation is warm-started from the
            # first file and written in the dense layout: every row's trajectory goes on as in the uninterrupted run
            if b.get("reversed") or len(b["rows"]) < 3:
                continue
            victim = b["rows"][0]["rid"]
            scn = make_scn(b, b["rows"], {"0": [victim]})
            scn["run"]["output"].update(layout="sparse", numrec=3)
            res1, _c1, w1 = run_scenario(scn, wd / "leg1")
            if not res1.ok or len(res1.outputs) < 2:
                continue
            full = trajectories(all_records(read_outputs(res1.outputs)), scn["run"]["start"], b["dt"])[0]
            run2 = dict(scn["run"], warm_start=dict(filename=str(res1.outputs[0]), variables=["release_time"] + list(scn["run"]["state"]["instance_variables"])))
            run2["output"] = dict(scn["run"]["output"], layout="dense", numrec=0, filename="leg2.nc")
            res2, _c2, _w2 = run_scenario(dict(world=None, run=run2), wd / "leg2", world=w1)
            if not res2.ok:
                V.append(C.viol(f"warm-started continuation (dense layout) did not complete: {res2.exc}", tb=res2.tb[-1000:], **desc))
                continue
            recs2 = all_records(read_outputs(res2.outputs))
            for r in recs2:
                outcheck.check_record_pids(r, V, "continuation in the dense layout: ")
            cont = trajectories(recs2, scn["run"]["start"], b["dt"])[0]
            sit["restart_in_dense_layout_pairs"] = sit.get("restart_in_dense_layout_pairs", 0) + 1
            for rid_, pts in cont.items():
                ref_pts = {p_[0]: p_ for p_ in full.get(rid_, [])}
                for p_ in pts:
                    q_ = ref_pts.get(p_[0])
                    if q_ is None or max(abs(p_[1] - q_[1]), abs(p_[2] - q_[2])) > 2e-5:
                        if p_[0] >= b["nsteps"]:
                            continue  # the extra record a warm-started run writes at the stop time
                        V.append(C.viol(f"continuation warm-started from {res1.outputs[0].name} and written dense: row {rid_} at step {p_[0]} is at ({p_[1]},{p_[2]}), "
                                        f"the uninterrupted run has {q_[1:3] if q_ else 'no such record'}", **desc))
                        break
                if len(V) > 2:
                    break
        elif var == "repeat_stateful":
            # an IBM given by file path that keeps a module-level call counter and switches one particle off at its third call:
            # repeating the run in the same process reproduces the output (the plug-in file is loaded afresh for every run)
            mod = wd / "stateful_ibm.py"
            mod.write_text("from vmon.plugins.rec_ibm import IBM as _IBM\n\nCALLS = 0\n\n\nclass IBM(_IBM):\n    def update(self):\n        global CALLS\n        CALLS += 1\n"
                           "        super().update()\n        if CALLS == 3:\n            st = self.state\n            st['active'] = st['active'] & (st['rid'] != %d)\n" % rids[0])
            o1 = run("stateful_1", b["rows"], {}, ibm_module=str(mod))
            o2 = run("stateful_2", b["rows"], {}, ibm_module=str(mod))
            if o1 and o2:
                compare("run with a stateful IBM module repeated in the same process", o2, rids, "repeat_with_stateful_plugin_pairs", ref=o1)
        elif var == "interleave":
            # rows of one release time no longer contiguous in the file (t0, t1, t0, t1, ...; first appearances still in simulation order)
            groups = [[r for r in b["rows"] if r["step"] == s] for s in sorted({r["step"] for r in b["rows"]})]
            rows2 = []
            while any(groups):
                for g_ in groups:
                    if g_:
                        rows2.append(g_.pop(0))
            if len({r["step"] for r in b["rows"]}) > 1:
                o = run("interleave", rows2, {})
                if o:
                    compare("release rows of the same time scattered over the file", o, rids, "interleaved_release_times_pairs")
        elif var == "shift":
            k = int(rng.choice([-7, 3, 11, 144, 15778800, -6311520]))  # also by about 300 years forwards (beyond 2262) and 120 years backwards
            o = run("shift", b["rows"], {}, shift=k)
            if o:
                compare(f"every time shifted by {k} steps", o, rids, "time_shift_pairs")
                if abs(k) > 10**6:
                    sit["time_shift_of_a_century_or_more_pairs"] = sit.get("time_shift_of_a_century_or_more_pairs", 0) + 1
    sample = dict(desc, variants=variants, flow=b["world"]["vel"]["kind"], profile=b["world"]["vel"]["profile"], release_steps=sorted({r["step"] for r in b["rows"]}))
    return C.result(V[:3], sit, cnt, nontrivial=nontrivial or sit.get("trajectory_points_compared", 0) > 0, key=str(case["idx"]), sample=sample)
