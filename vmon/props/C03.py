"""C03 Forcing in time: linear between bracketing frames for any frame/file layout.

Monitor: every forcing frame carries a distinct amplitude (uniform in space), so any velocity the model reports
identifies which frames were blended with which weight.  A probing IBM plug-in asks the real ROMS forcing for
the velocity at fractional steps 0, 1/4, 1/2, 1 at every model step and records the scalar forcing; hooks on
Forcing._read_velocity/_read_field record which file was open and what was read.  Oracle: linear interpolation
in model time between the bracketing frames, computed from the layout spec."""

from __future__ import annotations

import itertools
from pathlib import Path
from typing import Any

import numpy as np

from vmon import common as C
from vmon import rec
from vmon import world as W
from vmon.env import VERIF
from vmon.hooks import Hooks
from vmon.scenario import run_scenario, tadd

LEVEL = "exploration"
TECHNIQUE = "runtime monitoring: frame-coded forcing files + probing IBM plug-in + read hooks, checked against linear interpolation between the bracketing frames"
LEVEL_TEXT = ("Real end-to-end runs over generated frame layouts (spacing 1-5 steps incl. spacing == dt and irregular, 3-12 frames, random partitions into files incl. one frame per "
              "file and files entered in the middle, start offsets on and between frames, forward and reversed, 0-2 scalar fields, float or packed). At every model step the "
              "velocity at 4 fractional steps and the scalar forcing are compared with the interpolation oracle; every read is checked to come from the file holding that frame. "
              "The thorough tier adds all compositions of <= 7 frames into files x all start offsets x both directions for spacings in {1,2,3}.")
LEVEL_NOTE = "Tolerance 2e-5 relative (float32 fields accumulate u += dU over up to 5 steps). Trusts the harness's layout oracle and netCDF4."
RULE = ("case = one layout (frame positions in steps, file partition, start, stop, direction, scalars, packing). Non-trivial: the run passes at least one frame step after the "
        "start (a hand-over happens); distinct by (positions, partition, start, stop, direction).")
MANDATORY = ["one_velocity_component_steady_while_the_other_changes", "two_simulations_alive_and_stepped_in_turn", "file_unavailable_at_the_moment_of_a_file_switch", "files_rewritten_with_another_layout_after_a_run", "same_single_fraction_requested_every_step", "warm_start_probe_steps", "warm_start_reaches_last_frame", "files_with_different_time_references", "frame_passed_while_state_empty", "forward", "reversed", "spacing_equals_dt", "irregular_spacing", "one_frame_per_file", "file_entered_in_middle", "start_on_frame", "start_between_frames",
             "scalar_fields", "packed", "handover_steps_observed", "probe_steps", "reads_checked", "first_read_straddles_files", "time_units_hours_or_days", "packed_per_file_parameters"]
ASSUMPTIONS = ["frames on the model time grid, strictly increasing, covering [start, stop] (as the property quantifies)"]
TIMEOUT = {"quick": 900, "thorough": 3000}
PROBE = str(VERIF / "vmon" / "plugins" / "probe_ibm.py")
FRACS = [0.0, 0.25, 0.5, 1.0]


def amps(n: int, salt: int) -> list[float]:
    r = np.random.default_rng([salt, 303])
    a = r.uniform(0.2, 1.0, size=n) * r.choice([-1, 1], size=n)
    return [float(np.float32(x)) for x in a]


def rand_layout(rng, idx: int) -> dict[str, Any]:
    nfr = int(rng.integers(3, 13))
    style = int(rng.integers(4))
    if style == 0:
        gaps = [1] * (nfr - 1)
    elif style == 1:
        gaps = [int(g) for g in rng.choice([1, 2, 3, 5], size=nfr - 1)]
    elif style == 2:
        gaps = [int(g) for g in rng.choice([1, 1, 2, 3], size=nfr - 1)]
    else:
        g = int(rng.choice([2, 3, 5]))
        gaps = [g] * (nfr - 1)
    P = [0]
    for g in gaps:
        P.append(P[-1] + g)
    # partition into files
    pstyle = int(rng.integers(4))
    if pstyle == 0:
        files = [nfr]
    elif pstyle == 1:
        files = [1] * nfr
    else:
        files = []
        left = nfr
        while left:
            c = int(rng.integers(1, min(left, 4) + 1))
            files.append(c)
            left -= c
    rev = bool(idx % 2)
    if not rev:
        S = int(rng.integers(P[0], P[-2] + 1))
        if rng.random() < 0.4:
            S = int(rng.choice(P[:-1]))
        E = int(rng.integers(S + 1, P[-1] + 1))
    else:
        S = int(rng.integers(P[1], P[-1] + 1))
        if rng.random() < 0.4:
            S = int(rng.choice(P[1:]))
        E = int(rng.integers(P[0], S))
    nsc = int(rng.choice([0, 1, 2]))
    return dict(P=P, files=files, S=S, E=E, reversed=rev, nscalars=nsc, packed=bool(rng.random() < 0.4), dt=int(rng.choice([60, 600, 3600])), salt=idx)


def compositions(n: int):
    if n == 0:
        yield []
        return
    for first in range(1, n + 1):
        for rest in compositions(n - first):
            yield [first, *rest]


def gen_cases(tier: str, seed: int) -> list[dict[str, Any]]:
    n = 160 if tier == "quick" else 30000
    cases = []
    for i in range(n):
        rng = C.rng_for(seed, 3, i)
        cases.append(rand_layout(rng, i))
    # hand-picked hard layouts (both directions)
    k = 10**6
    for P, files in (([0, 1, 2, 3], [1, 1, 1, 1]), ([0, 1, 2, 3, 4], [5]), ([0, 2, 4], [1, 1, 1]), ([0, 3, 4, 9], [2, 2]), ([0, 1, 3, 4, 6], [2, 1, 2])):
        for S, E, rev in ((P[0], P[-1], False), (P[1], P[-1], False), (P[-1], P[0], True), (P[-2], P[0], True), (P[0] + 1 if P[1] > 1 else P[1], P[-1], False)):
            k += 1
            cases.append(dict(P=P, files=files, S=S, E=E, reversed=rev, nscalars=1, packed=False, dt=600, salt=k))
    if tier == "thorough":
        # exhaustive: all compositions of <= 7 frames into files x all start offsets x 2 directions, spacing in {1,2,3}
        for nfr in range(2, 8):
            for g in (1, 2, 3):
                P = [g * i for i in range(nfr)]
                for files in compositions(nfr):
                    for S in range(P[0], P[-1] + 1):
                        for rev in (False, True):
                            if (not rev and S >= P[-1]) or (rev and S <= P[0]):
                                continue
                            k += 1
                            E = P[-1] if not rev else P[0]
                            cases.append(dict(P=P, files=files, S=S, E=E, reversed=rev, nscalars=1 if (k % 3 == 0) else 0, packed=False, dt=600, salt=k))
    return cases


def interp(P: list[int], A: list[float], x: float) -> float:
    for k in range(len(P) - 1):
        if P[k] <= x <= P[k + 1]:
            w = (x - P[k]) / (P[k + 1] - P[k])
            return (1 - w) * A[k] + w * A[k + 1]
    raise ValueError(x)


def run_case(case: dict[str, Any], wd: Path) -> dict[str, Any]:
    from ladim.ROMS import Forcing  # noqa: PLC0415

    P, files, S, E, rev, dt = case["P"], case["files"], case["S"], case["E"], case["reversed"], case["dt"]
    sgn = -1 if rev else 1
    nfr = len(P)
    au, av = amps(nfr, case["salt"]), amps(nfr, case["salt"] + 7)
    steady_v = bool(case["salt"] % 6 == 4)
    if steady_v:
        av = [av[0]] * nfr  # one component is the same in every frame (a steady background flow) while the other one changes
    scal_vals = {name: [float(100 * (n + 1) + 10 * j) for n in range(nfr)] for j, name in enumerate(["temp", "salt"][: case["nscalars"]])}
    t0 = C.T0
    w = dict(imax=10, jmax=9, N=2, t0=t0, frames=[p * dt for p in P], files=files,
             vel=dict(kind="frame_coded", amps_u=au, amps_v=av), h=dict(kind="flat", h=40.0),
             metric=dict(kind="uniform", dx=1.0e5, dy=1.0e5),  # huge cells: particles practically stay put
             scalars={name: dict(kind="const_frames", values=v) for name, v in scal_vals.items()})
    if dt % 3600 == 0 and case["salt"] % 2:
        w["time_units"] = ["hours since 2019-12-31 00:00:00", "days since 2020-01-01 00:00:00"][case["salt"] % 4 // 2]
        sit_units = 1
    if len(files) > 1 and case["salt"] % 3 == 2 and "time_units" not in w:
        # every file counts its seconds from another reference time (files produced by different model runs)
        w["time_units_per_file"] = ["seconds since 2000-01-01 00:00:00", "seconds since 1999-12-31 23:00:00", "seconds since 1970-01-01 00:00:00", "seconds since 2020-02-29 12:00:00"]
    if case["packed"]:
        w["pack"] = {"u": 1.0e-4, "v": 1.0e-4}
        for name in scal_vals:
            w["pack"][name] = (0.05, 500.0)
        if len(files) > 1 and case["salt"] % 2 == 0:
            # every file packed with its own parameters (as per-file ncpdq packing gives), some files not packed at all
            w["pack_per_file"] = [dict(u=1.0e-4, v=2.0e-4, **{n: (0.05, 500.0) for n in scal_vals}),
                                  dict(u=2.5e-4, v=5.0e-5, **{n: (0.1, 300.0) for n in scal_vals}),
                                  dict(u=5.0e-5, v=1.0e-4, **{n: (0.02, 700.0) for n in scal_vals})]
    start = str(tadd(t0, S * dt))
    stop = str(tadd(t0, E * dt))
    st_i = {name: "float" for name in scal_vals}
    # a third of the cases: nobody is released before step k, the state is empty while the forcing has to keep stepping through its frames
    first_rel = 0
    if case["salt"] % 3 == 1 and abs(E - S) >= 3:
        first_rel = 1 + case["salt"] % (abs(E - S) - 1)
    trel = str(tadd(start, sgn * first_rel * dt))
    run = dict(start=start, stop=stop, dt=dt, reversed=rev, advection="EF", extra_forcing=list(scal_vals),
               release=dict(columns=["release_time", "X", "Y", "Z"], rows=[[trel, 4.3, 4.6, 5.0], [trel, 5.5, 3.5, 20.0]], header=True),
               state=dict(instance_variables=st_i, default_values={k: 0.0 for k in st_i}),
               # every fourth case asks for one and the same fraction in every step and nothing else (as RK2 does with 0.5)
               ibm=dict(module=PROBE, fractions=[[0.5], [0.25], [1.0]][case["salt"] % 3] if case["salt"] % 4 == 1 else FRACS),
               output=dict(period=dt))
    # --- independent tables from the spec
    file_of_frame = []
    for fi, c in enumerate(files):
        file_of_frame += [(fi, k) for k in range(c)]
    step_of_frame = [sgn * (p - S) for p in P]
    frame_at_step = {s: n for n, s in enumerate(step_of_frame)}
    nsteps = abs(E - S)

    reads: list[dict[str, Any]] = []

    def after_rv(tok, res, self, time_step):
        U, Vv = res
        reads.append(dict(kind="vel", step=int(time_step), file=Path(self._nc.filepath()).name, u=float(np.asarray(U)[0, 2, 2]), v=float(np.asarray(Vv)[0, 2, 2]),
                          uniform=bool(np.ptp(np.asarray(U)) < 1e-6)))

    def after_rf(tok, res, self, name, n):
        reads.append(dict(kind="field", name=name, step=int(n), file=Path(self._nc.filepath()).name, val=float(np.asarray(res)[0, 2, 2])))

    warm_tail = bool(not rev and E == P[-1] and abs(E - S) >= 3 and first_rel == 0 and scal_vals and not case["packed"])
    if warm_tail:
        run["output"]["numrec"] = 2  # split output: the first file is the starting point of a warm-started continuation (below)
    if case["salt"] % 5 == 3 and nfr >= 3:
        # history: the same file names held another frame layout a moment ago (all frames but the first one step later) and were used by a
        # run in this process; then the files are rewritten and the run proper starts
        import copy  # noqa: PLC0415

        wpre = copy.deepcopy(w)
        wpre["frames"] = [P[0] * dt] + [(p_ + 1) * dt for p_ in P[1:]]
        wpre.pop("time_units_per_file", None)
        runpre = dict(run, ibm={}, output=dict(period=dt, filename="pre.nc"))
        run_scenario(dict(world=wpre, run=runpre), wd, conf_name="pre.yaml")
        sit_pre = 1
    else:
        sit_pre = 0
    rec.reset()
    with Hooks() as hk:
        hk.wrap(Forcing, "_read_velocity", None, after_rv)
        hk.wrap(Forcing, "_read_field", None, after_rf)
        res, conf, world = run_scenario(dict(world=w, run=run), wd)
    log = list(rec.LOG)
    rec.reset()
    log2: list = []
    res2 = None
    if warm_tail and res.ok and len(res.outputs) > 1:
        # continuation warm-started from the first output file, running up to the stop time = the last forcing frame
        run2 = dict(run, warm_start=dict(filename=str(res.outputs[0]), variables=list(scal_vals)))
        run2["output"] = dict(run["output"], filename="out_001.nc")
        res2, _c2, _w2 = run_scenario(dict(world=None, run=run2), wd / "warm", world=world)
        log2 = list(rec.LOG)
        rec.reset()

    V: list = []
    sit: dict[str, int] = {}
    cnt: dict[str, int] = {}
    desc = dict(frame_steps=step_of_frame, files=files, start_pos=S, stop_pos=E, reversed=rev, nsteps=nsteps, amps_u=au)
    gaps = list(np.diff(P))
    sit["reversed" if rev else "forward"] = 1
    sit["one_velocity_component_steady_while_the_other_changes"] = int(steady_v and any(g_ >= 2 for g_ in np.diff(P)))
    sit["spacing_equals_dt"] = int(1 in gaps)
    sit["irregular_spacing"] = int(len(set(gaps)) > 1)
    sit["one_frame_per_file"] = int(all(c == 1 for c in files) and nfr > 1)
    sit["start_on_frame"] = int(S in P)
    sit["start_between_frames"] = int(S not in P)
    sit["scalar_fields"] = int(case["nscalars"] > 0)
    sit["packed"] = int(case["packed"])
    sit["packed_per_file_parameters"] = int("pack_per_file" in w)
    sit["time_units_hours_or_days"] = int("time_units" in w)
    sit["files_rewritten_with_another_layout_after_a_run"] = sit_pre
    sit["same_single_fraction_requested_every_step"] = int(case["salt"] % 4 == 1)
    sit["files_with_different_time_references"] = int("time_units_per_file" in w)
    sit["frame_passed_while_state_empty"] = int(any(0 < s_ <= first_rel for s_ in step_of_frame))
    # first frame read (prestep) in the middle of a file?
    pre = max([s for s in step_of_frame if s < 0], default=0)
    fpre = file_of_frame[frame_at_step[pre]]
    sit["file_entered_in_middle"] = int(fpre[1] > 0 and files[fpre[0]] > 1)
    nxt = min([s for s in step_of_frame if s > pre])
    sit["first_read_straddles_files"] = int(file_of_frame[frame_at_step[nxt]][0] != fpre[0])
    handovers = [s for s in step_of_frame if 0 < s < nsteps]
    sit["handover_steps_observed"] = len(handovers)
    key = f"{P}|{files}|{S}|{E}|{rev}|{case['nscalars']}|{case['packed']}"
    sample = dict(frame_positions=P, files=files, start=S, stop=E, reversed=rev, dt=dt, scalars=list(scal_vals), packed=case["packed"])

    if not res.ok:
        V.append(C.viol(f"run over a valid forcing layout did not complete: {res.exc}", tb=res.tb[-1500:], **desc))
        return C.result(V, sit, cnt, nontrivial=True, key=key, sample=sample)

    tol_rel = 2e-5 if not case["packed"] else 3e-4
    # --- reads come from the file that holds the frame, and return that frame
    for r in reads:
        if r["step"] not in frame_at_step:
            V.append(C.viol(f"forcing read requested for model step {r['step']} where no frame exists", **desc))
            break
        n = frame_at_step[r["step"]]
        want_file = f"f_{file_of_frame[n][0]:03d}.nc"
        cnt["reads_checked"] = cnt.get("reads_checked", 0) + 1
        if r["file"] != want_file:
            V.append(C.viol(f"frame of model step {r['step']} (frame {n}, stored in {want_file}) was read from {r['file']}", **desc))
            break
        if r["kind"] == "vel":
            if not (abs(r["u"] - au[n]) <= tol_rel * 2 + 1e-4 * case["packed"]) or not (abs(r["v"] - av[n]) <= tol_rel * 2 + 1e-4 * case["packed"]):
                V.append(C.viol(f"read for model step {r['step']} returned u={r['u']:.5f}, frame {n} holds {au[n]:.5f}", **desc))
                break
        elif abs(r["val"] - scal_vals[r["name"]][n]) > 0.06:
            V.append(C.viol(f"scalar {r['name']} read for model step {r['step']} returned {r['val']}, frame {n} holds {scal_vals[r['name']][n]}", **desc))
            break
    sit["reads_checked"] = cnt.get("reads_checked", 0)
    # --- per-step probes
    if len(log) != nsteps:
        V.append(C.viol(f"probe saw {len(log)} steps, the run has {nsteps}", **desc))
    prev1 = None
    for snap in log:
        s = snap["step"]
        sit["probe_steps"] = sit.get("probe_steps", 0) + 1
        for f in FRACS:
            x = S + sgn * (s + f)
            if not (P[0] <= x <= P[-1]):
                continue
            wu, wv = sgn * interp(P, au, x), sgn * interp(P, av, x)
            if f not in snap["vel"]:
                continue
            gu, gv = snap["vel"][f]
            cnt["velocity_values_compared"] = cnt.get("velocity_values_compared", 0) + 2 * len(gu)
            if not (np.max(np.abs(gu - wu)) <= tol_rel * (1 + abs(wu)) * 3) or not (np.max(np.abs(gv - wv)) <= tol_rel * (1 + abs(wv)) * 3):
                V.append(C.viol(f"step {s} + {f}: velocity u={float(gu[0]):.6f}, linear interpolation between the bracketing frames gives {wu:.6f} "
                                f"(v={float(gv[0]):.6f} vs {wv:.6f})", **desc))
                break
        else:
            # velocity(step, 1.0) == velocity(step+1, 0)
            if prev1 is not None and 0.0 in snap["vel"]:
                if not (abs(prev1 - float(snap["vel"][0.0][0][0])) <= tol_rel * 6):
                    V.append(C.viol(f"velocity(step {s - 1}, fraction 1) = {prev1:.6f} but velocity(step {s}, fraction 0) = {float(snap['vel'][0.0][0][0]):.6f}", **desc))
                    break
            prev1 = float(snap["vel"][1.0][0][0]) if 1.0 in snap["vel"] else None
            # forcing.variables u (evaluated by force.update at this step)
            x = S + sgn * s
            wu = sgn * interp(P, au, x)
            if "u" in snap["variables"] and len(snap["variables"]["u"]) and not (abs(float(snap["variables"]["u"][0]) - wu) <= tol_rel * (1 + abs(wu)) * 3):
                V.append(C.viol(f"step {s}: forcing.variables['u'] = {float(snap['variables']['u'][0]):.6f}, interpolation gives {wu:.6f}", **desc))
                break
            wv0 = sgn * interp(P, av, x)
            if "v" in snap["variables"] and len(snap["variables"]["v"]) and not (abs(float(snap["variables"]["v"][0]) - wv0) <= tol_rel * (1 + abs(wv0)) * 3):
                V.append(C.viol(f"step {s}: forcing.variables['v'] = {float(snap['variables']['v'][0]):.6f}, interpolation gives {wv0:.6f}", **desc))
                break
            for name, vals in scal_vals.items():
                if not len(snap["variables"][name]):
                    continue  # nobody released yet
                passed = [n for n in range(nfr) if step_of_frame[n] <= s]
                n_latest = max(passed, key=lambda n: step_of_frame[n])
                got = float(snap["variables"][name][0])
                cnt["scalar_values_compared"] = cnt.get("scalar_values_compared", 0) + 1
                if abs(got - vals[n_latest]) > 0.06:
                    V.append(C.viol(f"step {s}: scalar {name} = {got}, latest frame at or before the step (frame {n_latest}) holds {vals[n_latest]}", **desc))
                    break
            else:
                continue
            break
        if V:
            break
    if res2 is not None and not V:
        if not res2.ok:
            V.append(C.viol(f"warm-started continuation over the same forcing did not complete: {res2.exc}", tb=res2.tb[-1200:], **desc))
        t0s = np.datetime64(t0, "s")
        for snap in log2:
            if V:
                break
            x = float((np.datetime64(snap["time"], "s") - t0s) / np.timedelta64(1, "s")) / dt
            if not (P[0] <= x <= P[-1]) or not len(snap["variables"].get("u", [])):
                continue
            sit["warm_start_probe_steps"] = sit.get("warm_start_probe_steps", 0) + 1
            if abs(x - P[-1]) < 1e-9:
                sit["warm_start_reaches_last_frame"] = 1
            wu = interp(P, au, x)
            if not (abs(float(snap["variables"]["u"][0]) - wu) <= tol_rel * (1 + abs(wu)) * 3):
                V.append(C.viol(f"warm-started run, model time {snap['time']}: forcing.variables['u'] = {float(snap['variables']['u'][0]):.6f}, interpolation between the bracketing frames gives {wu:.6f}", **desc))
                break
            for name, vals in scal_vals.items():
                n_latest = max([n for n in range(nfr) if P[n] <= x + 1e-9], key=lambda n: P[n])
                got = float(snap["variables"][name][0])
                if abs(got - vals[n_latest]) > 0.06:
                    V.append(C.viol(f"warm-started run, model time {snap['time']}: scalar {name} = {got}, the latest frame at or before that time (frame {n_latest}) holds {vals[n_latest]}", **desc))
                    break
    def compare_with_solo(log_x, what):
        ref_by_step = {sn["step"]: sn for sn in log}
        for sn in log_x:
            r0 = ref_by_step.get(sn["step"])
            if r0 is None:
                continue
            same = all(np.array_equal(sn["variables"][k], r0["variables"].get(k)) for k in sn["variables"]) and all(
                f_ in r0["vel"] and np.array_equal(sn["vel"][f_][0], r0["vel"][f_][0]) and np.array_equal(sn["vel"][f_][1], r0["vel"][f_][1]) for f_ in sn["vel"])
            cnt["steps_compared_with_the_solo_run"] = cnt.get("steps_compared_with_the_solo_run", 0) + 1
            if not same:
                V.append(C.viol(f"{what} step {sn['step']} ({sn['time']}) was carried out with "
                                f"u = {[float(np.ravel(v_[0])[0]) for v_ in sn['vel'].values()][:3]}, the run on its own had {[float(np.ravel(v_[0])[0]) for v_ in r0['vel'].values()][:3]}", **desc))
                break

    if len(files) > 1 and case["salt"] % 4 in (0, 2) and not V:
        # fault at a file switch: the file that the look-ahead is about to open cannot be opened at that moment (moved away, and put back right after
        # the attempt).  Whatever the run does then - it stops - no step may be carried out with another field than the fault-free run had.
        inj = dict(done=False)
        orig_rv = Forcing._read_velocity

        def faulty_rv(self, time_step):
            target = Path(str(self.file_idx[time_step]))
            switch = (not getattr(self, "_first_read", True)) and str(getattr(self, "_open_file", target)) != str(target)
            if switch and not inj["done"] and target.exists():
                inj["done"] = True
                away = target.with_name(target.name + ".away")
                target.rename(away)
                try:
                    return orig_rv(self, time_step)
                finally:
                    away.rename(target)
            return orig_rv(self, time_step)

        rec.reset()
        Forcing._read_velocity = faulty_rv
        try:
            res3, _c3, _w3 = run_scenario(dict(world=None, run=dict(run, output=dict(period=dt, filename="fault.nc"))), wd / "fault", world=world)
        finally:
            Forcing._read_velocity = orig_rv
        log3 = list(rec.LOG)
        rec.reset()
        if inj["done"]:
            sit["file_unavailable_at_the_moment_of_a_file_switch"] = 1
            sit["run_stopped_by_the_unavailable_file"] = int(not res3.ok)
            compare_with_solo(log3, "a forcing file could not be opened at the moment of a file switch; the run went on and")
    if case["salt"] % 7 == 5 and not V:
        # two simulations alive in one process and stepped in turn (the second one on other forcing values): the first one's fields are its own
        from vmon.scenario import build_config, run_two_models_alive, write_yaml  # noqa: PLC0415

        two = wd / "two"
        two.mkdir(parents=True, exist_ok=True)
        wB = dict(w, vel=dict(kind="frame_coded", amps_u=[-1.7 * a for a in au], amps_v=[0.3 * a for a in av]))
        worldB = W.write_world(two / "worldB", wB)
        write_yaml(build_config(dict(run, ibm={}, output=dict(period=dt, filename="twoB.nc")), two, worldB), two / "b.yaml")
        write_yaml(build_config(dict(run, output=dict(period=dt, filename="twoA.nc")), two, world), two / "a.yaml")
        rec.reset()
        r2m = run_two_models_alive(two / "a.yaml", two / "b.yaml", two)
        log4 = list(rec.LOG)
        rec.reset()
        sit["two_simulations_alive_and_stepped_in_turn"] = 1
        if not r2m.ok:
            V.append(C.viol(f"two simulations alive in one process, stepped in turn: {r2m.exc} (each of them runs alone)", **desc))
        else:
            compare_with_solo(log4, "two simulations alive in one process, stepped in turn:")
    return C.result(V[:3], sit, cnt, nontrivial=len(handovers) > 0, key=key, sample=sample)
