"""Shared output-file checker: snapshots taken at the Output.write call boundary vs the NetCDF files read back
exactly as the format documentation prescribes (cumulative particle_count).  Used by C06, C07 and, for the
record-level clauses (pid strictly increasing, pid[k] >= k), by every end-to-end check."""

from __future__ import annotations

from typing import Any

import numpy as np

from vmon import common as C
from vmon.hooks import Hooks
from vmon.scenario import OutFile

PREC = {"f4": 2e-6, "f8": 0.0, "i4": 0.0, "i8": 0.0, "i2": 0.0}


def snapshot_hook(hk: Hooks, snaps: list[dict[str, Any]]) -> None:
    """Record the live rows of the state and the clock at every Output.write entry."""
    from ladim.out_netcdf import Output  # noqa: PLC0415

    def before(self, state):
        alive = np.asarray(state.alive, bool).copy()
        snap = dict(step=int(self.timer.step), clock=str(self.timer.time), npid=int(state.npid), alive_pids=state.pid[alive].copy(),
                    inst={k: np.asarray(state[k])[alive].copy() for k in state.instance_variables},
                    part={k: np.asarray(state[k]).copy() for k in state.particle_variables},
                    nstate=len(state.pid), inactive_alive=int(np.sum(alive & ~np.asarray(state.active, bool))))
        snaps.append(snap)
        return None

    hk.wrap(Output, "write", before, None)


def check_record_pids(rec, V: list, where: str = "") -> bool:
    pid = np.asarray(rec.pid)
    if len(pid) and (np.any(np.diff(pid) <= 0) or np.any(pid < np.arange(len(pid)))):
        V.append(C.viol(f"{where}record at {rec.time}: pids not strictly increasing with pid[k] >= k: {pid[:20].tolist()}"))
        return False
    stored = rec.vars.get("pid") if hasattr(rec, "vars") else None
    if stored is not None and len(stored) == len(pid) and np.any(np.asarray(stored).astype(int) != pid):
        # dense layout: the column index is the identifier; a pid variable stored in the row must say the same
        V.append(C.viol(f"{where}record at {rec.time}: the values of particles {np.asarray(stored).astype(int)[:12].tolist()} are stored in the columns {pid[:12].tolist()} of the dense row"))
        return False
    return True


def check_outputs(snaps: list[dict[str, Any]], files: list[OutFile], outconf: dict[str, Any], V: list, cnt: dict[str, int],
                  reference: str, state_types: dict[str, str] | None = None, xy2ll=None) -> None:
    """outconf = conf['output'] of the run (instance_variables/particle_variables with encodings)."""
    ivars = dict(outconf["instance_variables"])
    pvars = dict(outconf.get("particle_variables") or {})
    ref = np.datetime64(reference, "s")
    nrec_total = sum(len(f.records) for f in files)
    if nrec_total != len(snaps):
        V.append(C.viol(f"{len(snaps)} calls of Output.write, {nrec_total} records in the file(s)"))
    k = 0
    for f in files:
        if f.layout == "sparse" and f.counts is not None and int(f.counts.sum()) != f.ninstance_dim:
            V.append(C.viol(f"{f.path.name}: sum(particle_count) = {int(f.counts.sum())} but the particle_instance dimension has {f.ninstance_dim} entries"))
        if f.time_units != f"seconds since {ref}":
            V.append(C.viol(f"{f.path.name}: time units {f.time_units!r}, reference time is {ref}"))
        last_snap = None
        for r in f.records:
            if k >= len(snaps):
                break
            s = snaps[k]
            k += 1
            last_snap = s
            cnt["records_compared"] = cnt.get("records_compared", 0) + 1
            want_t = float((np.datetime64(s["clock"], "s") - ref) / np.timedelta64(1, "s"))
            if abs(r.timeval - want_t) > 1e-6:
                V.append(C.viol(f"{f.path.name} record {r.idx}: time coordinate {r.timeval}, the model clock was {s['clock']} = {want_t} s after the reference time"))
                return
            want_pids = s["alive_pids"]
            if f.layout == "sparse" or "pid" in r.vars:
                got_pids = np.asarray(r.vars["pid"]).astype(int) if "pid" in r.vars else r.pid
            else:
                got_pids = r.pid
            if len(got_pids) != len(want_pids) or np.any(got_pids != want_pids):
                V.append(C.viol(f"{f.path.name} record {r.idx} (t={r.time}): holds pids {got_pids[:15].tolist()} ({len(got_pids)}), alive at that time were "
                                f"{want_pids[:15].tolist()} ({len(want_pids)})"))
                return
            check_record_pids(r, V, f"{f.path.name} ")
            for name, conf in ivars.items():
                if name == "pid" and f.layout == "dense":
                    continue
                if name in ("lon", "lat") and xy2ll is not None:
                    got = np.asarray(r.vars[name], float)
                    want = np.asarray(xy2ll(s["inst"]["X"], s["inst"]["Y"])[0 if name == "lon" else 1], float)
                    cnt["lonlat_values_compared"] = cnt.get("lonlat_values_compared", 0) + len(want)
                    if len(got) != len(want) or np.any(np.abs(got - want) > 1e-9 + PREC.get(conf["encoding"]["datatype"], 0.0) * (1 + np.abs(want))):
                        V.append(C.viol(f"{f.path.name} record {r.idx}: {name} = {got[:6].tolist()}, interpolated grid coordinate at the record's X,Y is {want[:6].tolist()}"))
                        return
                    continue
                if name not in r.vars:
                    V.append(C.viol(f"{f.path.name}: instance variable {name} missing"))
                    return
                got = np.asarray(r.vars[name], float)
                want = np.asarray(s["inst"][name], float)
                tol = PREC.get(conf["encoding"]["datatype"], 0.0)
                sf = float((conf.get("attributes") or {}).get("scale_factor", 0.0))  # packed variable: half a quantum
                if sf:
                    cnt["packed_values_compared"] = cnt.get("packed_values_compared", 0) + len(want)
                cnt["values_compared"] = cnt.get("values_compared", 0) + len(want)
                if len(got) != len(want) or np.any(np.abs(got - want) > tol * (1 + np.abs(want)) + 0.5000001 * sf):
                    V.append(C.viol(f"{f.path.name} record {r.idx}: {name} = {got[:8].tolist()}, state had {want[:8].tolist()} (pids {want_pids[:8].tolist()})"))
                    return
            if f.layout == "dense":
                # fill before release and after death, for every variable
                for name, (row, fv) in r.raw.items():
                    from vmon.scenario import _isfill  # noqa: PLC0415

                    mask = np.ones(len(row), bool)
                    mask[want_pids[want_pids < len(row)]] = False
                    cnt["fill_cells_checked"] = cnt.get("fill_cells_checked", 0) + int(mask.sum())
                    if np.any(~_isfill(row[mask], fv)):
                        bad = np.nonzero(mask & ~_isfill(row, fv))[0]
                        V.append(C.viol(f"{f.path.name} record {r.idx}: dense variable {name} holds values at [time, pid] for pids {bad[:10].tolist()} "
                                        f"which are not alive (alive: {want_pids[:10].tolist()})"))
                        return
        # particle variables: index pid, for every particle released up to the last record of this file
        if last_snap is not None:
            npid = last_snap["npid"]
            for name, conf in pvars.items():
                if name not in f.pvars:
                    V.append(C.viol(f"{f.path.name}: particle variable {name} missing"))
                    return
                got = np.asarray(f.pvars[name], float)
                want = np.asarray(last_snap["part"][name])
                if want.dtype.kind in "USO":  # time-typed variables released from a file are held as ISO strings
                    want = want.astype("M8[s]")
                if want.dtype.kind == "M":
                    want = (want.astype("M8[s]") - ref) / np.timedelta64(1, "s")
                want = np.asarray(want, float)[:npid]
                cnt["particle_values_compared"] = cnt.get("particle_values_compared", 0) + npid
                if len(got) < npid:
                    V.append(C.viol(f"{f.path.name}: particle variable {name} defined for {len(got)} particles, {npid} were released up to the file's last record"))
                    return
                g = got[:npid]
                bad = ~((g == want) | (np.isnan(g) & np.isnan(want)) | (np.abs(g - want) <= PREC.get(conf["encoding"]["datatype"], 0.0) * (1 + np.abs(want)) + 0.5000001 * float((conf.get("attributes") or {}).get("scale_factor", 0.0))))
                if np.any(bad):
                    i = int(np.nonzero(bad)[0][0])
                    V.append(C.viol(f"{f.path.name}: particle variable {name}[pid {i}] = {g[i]}, state had {want[i]} ({int(bad.sum())} of {npid} wrong)"))
                    return
