"""Known-findings file reader.  Findings are matched by *mechanism* (a predicate the property
module evaluates on measured facts and attaches to the violation), never by case hash or
random values.  The file is never written at run time."""

from __future__ import annotations

import json
from typing import Any

from vmon.env import VERIF

FILE = VERIF / "known_findings.json"


def load() -> dict[str, Any]:
    if not FILE.exists():
        return dict(known=[], fixed=[])
    return json.loads(FILE.read_text())


def match(prop: str, violation: dict[str, Any], data: dict[str, Any] | None = None) -> dict[str, Any] | None:
    data = data if data is not None else load()
    mech = violation.get("mechanism")
    if not mech:
        return None
    for k in data.get("known", []):
        if k["property"] == prop and k["mechanism"] == mech:
            return k
    return None
