"""Pieces shared by the property modules."""

from __future__ import annotations

import json
from pathlib import Path
from typing import Any

import numpy as np

from vmon.env import VERIF

T0 = "2020-03-01T00:00:00"
REC_IBM = str(VERIF / "vmon" / "plugins" / "rec_ibm.py")


def rng_for(seed: int, *salt: int) -> np.random.Generator:
    return np.random.default_rng([seed, *salt])


def still_world(t_lo: str, t_hi: str, imax: int = 12, jmax: int = 10, N: int = 3, pad: int = 7200, **extra: Any) -> dict[str, Any]:
    """Still water, all sea; two frames bracketing [t_lo, t_hi] generously."""
    lo = np.datetime64(t_lo, "s") - np.timedelta64(pad, "s")
    hi = np.datetime64(t_hi, "s") + np.timedelta64(pad, "s")
    span = int((hi - lo) / np.timedelta64(1, "s"))
    w = dict(imax=imax, jmax=jmax, N=N, t0=str(lo), frames=[0, span], files=[2], vel=dict(kind="zero"),
             h=dict(kind="flat", h=100.0))
    w.update(extra)
    return w


def viol(what: str, mechanism: str | None = None, **detail: Any) -> dict[str, Any]:
    v: dict[str, Any] = dict(what=what, detail=detail)
    if mechanism:
        v["mechanism"] = mechanism
    return v


def jsonable(o: Any) -> Any:
    return json.loads(json.dumps(o, default=_d))


def _d(o):
    if isinstance(o, np.integer):
        return int(o)
    if isinstance(o, np.floating):
        return float(o)
    if isinstance(o, np.bool_):
        return bool(o)
    if isinstance(o, np.ndarray):
        return o.tolist()
    if isinstance(o, Path):
        return str(o)
    return str(o)


def result(violations=None, situations=None, counters=None, nontrivial=False, key=None, sample=None, **kw) -> dict[str, Any]:
    r = dict(violations=violations or [], situations=situations or {}, counters=counters or {},
             nontrivial=bool(nontrivial), key=key, sample=sample)
    r.update(kw)
    return jsonable(r)


def tadd_iso(t: str, seconds: int) -> str:
    return str(np.datetime64(t, "s") + np.timedelta64(int(seconds), "s"))
