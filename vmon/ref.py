"""Independent reference models (plain numpy, no ladim imports)."""

from __future__ import annotations

from typing import Any, Callable

import numpy as np

from vmon import world as W

Vel = Callable[[np.ndarray, np.ndarray, float], tuple[np.ndarray, np.ndarray]]


def scheme_step(scheme: str, vel: Vel, X, Y, t: float, dt: float, dx, dy):
    """One advection step for dX/dt = u/dx, dY/dt = v/dy.  Returns (X1, Y1, stages) where stages is the list of
    (X, Y, fraction) at which the scheme evaluates the velocity.  EF, midpoint RK2, classical RK4."""
    X = np.asarray(X, float)
    Y = np.asarray(Y, float)
    ax, ay = dt / dx, dt / dy
    stages = []
    u1, v1 = vel(X, Y, t)
    stages.append((X, Y, 0.0))
    if scheme == "EF":
        U, V = u1, v1
    elif scheme == "RK2":
        Xa, Ya = X + 0.5 * u1 * ax, Y + 0.5 * v1 * ay
        U, V = vel(Xa, Ya, t + 0.5 * dt)
        stages.append((Xa, Ya, 0.5))
    elif scheme == "RK4":
        Xa, Ya = X + 0.5 * u1 * ax, Y + 0.5 * v1 * ay
        u2, v2 = vel(Xa, Ya, t + 0.5 * dt)
        stages.append((Xa, Ya, 0.5))
        Xb, Yb = X + 0.5 * u2 * ax, Y + 0.5 * v2 * ay
        u3, v3 = vel(Xb, Yb, t + 0.5 * dt)
        stages.append((Xb, Yb, 0.5))
        Xc, Yc = X + u3 * ax, Y + v3 * ay
        u4, v4 = vel(Xc, Yc, t + dt)
        stages.append((Xc, Yc, 1.0))
        U = (u1 + 2 * u2 + 2 * u3 + u4) / 6.0
        V = (v1 + 2 * v2 + 2 * v3 + v4) / 6.0
    else:
        raise ValueError(scheme)
    return X + U * ax, Y + V * ay, stages, (U, V)


def flow_vel(spec: dict[str, Any]) -> Vel:
    def f(X, Y, t):
        return W.flow(spec, X, Y, t)

    return f


def integrate(scheme: str, vel: Vel, X, Y, t0: float, dt: float, nsteps: int, dx, dy):
    X = np.array(X, float)
    Y = np.array(Y, float)
    t = t0
    for _ in range(nsteps):
        X, Y, _s, _uv = scheme_step(scheme, vel, X, Y, t, dt, dx, dy)
        t += dt
    return X, Y


def observed_order(errs: list[float], floor: float = 1e-10) -> float | None:
    """Least-squares slope of log2(err) against refinement level, using errors above the round-off floor."""
    pts = [(k, e) for k, e in enumerate(errs) if e > floor and np.isfinite(e)]
    if len(pts) < 2:
        return None
    k = np.array([p[0] for p in pts], float)
    le = np.log2(np.array([p[1] for p in pts]))
    return float(-np.polyfit(k, le, 1)[0])
