"""Shared in-process store that recording plug-ins (loaded by ladim itself) write to."""

from __future__ import annotations

from typing import Any

LOG: list[dict[str, Any]] = []
CALLS: list[tuple] = []


def reset() -> None:
    LOG.clear()
    CALLS.clear()
