"""Synthetic ROMS world: grid + forcing NetCDF files written from a JSON-serialisable spec.

Independent of ladim: nothing here imports the code under test.  Reference models read
the *files* back (ref/*.py) so that what ladim sees and what the oracle sees is the
same bytes, interpreted by two independent pieces of code.

Conventions (ROMS C-grid, as documented in ladim):
  rho point (j, i) at x=i, y=j;  u point (j, i) at x=i+0.5, y=j;  v point (j, i) at x=i, y=j+0.5
  u has shape (t, s, jmax, imax-1), v has shape (t, s, jmax-1, imax)
"""

from __future__ import annotations

import math
from pathlib import Path
from typing import Any

import numpy as np
from netCDF4 import Dataset

EPOCH = np.datetime64("1970-01-01T00:00:00", "s")


# ----------------------------------------------------------------------------
# vertical
# ----------------------------------------------------------------------------


def stretching(N: int, theta_s: float, theta_b: float, stagger: str, Vstretching: int = 1):
    """Own implementation of the ROMS stretching curves (Song & Haidvogel 1994; Shchepetkin)."""
    if stagger == "rho":
        S = (np.arange(N) + 0.5) / N - 1.0
    else:
        S = np.arange(N + 1) / N - 1.0
    if Vstretching == 1:
        C = (1 - theta_b) * np.sinh(theta_s * S) / math.sinh(theta_s) + theta_b * (
            np.tanh(theta_s * (S + 0.5)) / (2 * math.tanh(0.5 * theta_s)) - 0.5
        )
    elif Vstretching == 4:
        C = (1 - np.cosh(theta_s * S)) / (math.cosh(theta_s) - 1) if theta_s > 0 else -(S**2)
        if theta_b > 0:
            C = (np.exp(theta_b * C) - 1) / (1 - math.exp(-theta_b))
    elif Vstretching == 2:
        Csur = (1 - np.cosh(theta_s * S)) / (math.cosh(theta_s) - 1)
        Cbot = np.sinh(theta_b * (S + 1)) / math.sinh(theta_b) - 1
        mu = (S + 1) * (1 + (1 - (S + 1)))
        C = mu * Csur + (1 - mu) * Cbot
    else:
        raise ValueError(Vstretching)
    return S, C


def level_depths(h: np.ndarray, hc: float, S: np.ndarray, C: np.ndarray, Vtransform: int):
    """z of levels, shape (len(S), *h.shape), negative below the surface (zeta = 0)."""
    h = np.asarray(h, float)
    S = S.reshape((-1,) + (1,) * h.ndim)
    C = C.reshape(S.shape)
    if Vtransform == 1:
        return hc * (S - C) + C * h
    return h * (hc * S + C * h) / (hc + h)


# ----------------------------------------------------------------------------
# horizontal pieces
# ----------------------------------------------------------------------------


def make_h(spec: dict[str, Any], jmax: int, imax: int) -> np.ndarray:
    kind = spec.get("kind", "flat")
    if kind == "flat":
        return np.full((jmax, imax), float(spec.get("h", 100.0)))
    if kind == "random":
        rng = np.random.default_rng([spec.get("seed", 0), 11])
        return rng.uniform(spec["hmin"], spec["hmax"], size=(jmax, imax))
    if kind == "slope":
        X = np.arange(imax)[None, :] + 0.0 * np.arange(jmax)[:, None]
        Y = np.arange(jmax)[:, None] + 0.0 * np.arange(imax)[None, :]
        return spec["h0"] + spec.get("hx", 0.0) * X + spec.get("hy", 0.0) * Y
    raise ValueError(kind)


def make_mask(spec: dict[str, Any], jmax: int, imax: int) -> np.ndarray:
    kind = spec.get("kind", "sea")
    M = np.ones((jmax, imax), dtype=float)
    if kind == "sea":
        return M
    if kind == "random":
        rng = np.random.default_rng([spec.get("seed", 0), 12])
        M = (rng.random((jmax, imax)) >= spec.get("p", 0.15)).astype(float)
        return M
    if kind == "explicit":
        for j, i in spec["land"]:
            M[j, i] = 0.0
        return M
    if kind == "coast":
        # land strip(s): cells with x >= xland (east coast) and/or islands
        if "xland" in spec:
            M[:, spec["xland"]:] = 0.0
        if "yland" in spec:
            M[spec["yland"]:, :] = 0.0
        for j, i in spec.get("islands", []):
            M[j, i] = 0.0
        for j, i in spec.get("sea", []):
            M[j, i] = 1.0
        return M
    raise ValueError(kind)


def polar_lonlat(X, Y, p: dict[str, float]):
    """Analytic polar stereographic grid: true lon/lat (degrees) of grid position X,Y."""
    R = 6371.0e3
    phi_c = math.radians(60.0)
    xp, yp, dx, ylon = p["xp"], p["yp"], p["dx"], p["ylon"]
    r = np.hypot(X - xp, Y - yp)
    lat = 90.0 - 2.0 * np.degrees(np.arctan(r * dx / (R * (1 + math.sin(phi_c)))))
    lon = ylon + np.degrees(np.arctan2(X - xp, yp - Y))
    return lon, lat


def polar_spacing(X, Y, p: dict[str, float]):
    phi_c = math.radians(60.0)
    _, lat = polar_lonlat(X, Y, p)
    return p["dx"] * (1 + np.sin(np.radians(lat))) / (1 + math.sin(phi_c))


# ----------------------------------------------------------------------------
# analytic flows (m/s as function of grid coordinates and time in seconds)
# ----------------------------------------------------------------------------


def flow(spec: dict[str, Any], X, Y, t: float):
    """Velocity (u, v) in m/s at grid position X, Y (arrays) and time t (seconds after t0)."""
    kind = spec["kind"]
    X = np.asarray(X, float)
    Y = np.asarray(Y, float)
    if kind == "zero":
        return np.zeros_like(X + Y), np.zeros_like(X + Y)
    if kind == "const":
        return np.full_like(X + Y, spec["u"]), np.full_like(X + Y, spec["v"])
    if kind == "linear":  # exactly representable by bilinear + linear-in-time interpolation
        u = spec["u0"] + spec.get("ux", 0) * X + spec.get("uy", 0) * Y + (spec.get("ut", 0) + spec.get("uxt", 0) * X + spec.get("uyt", 0) * Y) * t
        v = spec["v0"] + spec.get("vx", 0) * X + spec.get("vy", 0) * Y + (spec.get("vt", 0) + spec.get("vxt", 0) * X + spec.get("vyt", 0) * Y) * t
        return u + 0 * Y, v + 0 * X
    mod = 1.0 + spec.get("tmod", 0.0) * np.sin(spec.get("tfreq", 0.0) * t)
    if kind == "rotation":
        om = spec["omega"]
        return -om * (Y - spec["yc"]) * mod, om * (X - spec["xc"]) * mod
    if kind == "strain":
        g = spec["gamma"]
        return g * (X - spec["xc"]) * mod, -g * (Y - spec["yc"]) * mod
    if kind == "gyre":
        A, kx, ky = spec["A"], spec["kx"], spec["ky"]
        return (
            -A * np.sin(kx * X) * np.cos(ky * Y) * mod,
            A * np.cos(kx * X) * np.sin(ky * Y) * mod * spec.get("ratio", 1.0),
        )
    if kind == "wave":
        A, k, c = spec["A"], spec["k"], spec["c"]
        ph = k * (X - c * t)
        return A * np.sin(ph) + spec.get("u0", 0.0), A * 0.7 * np.cos(ph + 0.4 * Y) + spec.get("v0", 0.0)
    if kind == "jet":  # strong flow towards a coast / boundary with weak cross component
        u = spec["u"] * (1 + spec.get("shear", 0.0) * np.sin(0.7 * Y + 0.3 * X)) * mod
        v = spec["v"] * (1 + spec.get("shear", 0.0) * np.cos(0.5 * X - 0.2 * Y)) * mod
        return u, v
    raise ValueError(kind)


def field_frames(vel: dict[str, Any], nframes: int, tsec: list[float], N: int, jmax: int, imax: int, zr):
    """Return u (nframes,N,jmax,imax-1) and v (nframes,N,jmax-1,imax) as float64 arrays."""
    kind = vel["kind"]
    u = np.zeros((nframes, N, jmax, imax - 1))
    v = np.zeros((nframes, N, jmax - 1, imax))
    Xu = (np.arange(imax - 1) + 0.5)[None, :] + 0.0 * np.arange(jmax)[:, None]
    Yu = np.arange(jmax)[:, None] + 0.0 * np.arange(imax - 1)[None, :]
    Xv = np.arange(imax)[None, :] + 0.0 * np.arange(jmax - 1)[:, None]
    Yv = (np.arange(jmax - 1) + 0.5)[:, None] + 0.0 * np.arange(imax)[None, :]
    prof = np.asarray(vel.get("profile", [1.0] * N), float)
    if len(prof) != N:
        prof = np.interp(np.linspace(0, 1, N), np.linspace(0, 1, len(prof)), prof)
    for n in range(nframes):
        if kind == "frame_coded":  # uniform in space, distinct amplitude per frame
            u[n] = vel["amps_u"][n]
            v[n] = vel["amps_v"][n]
            u[n] *= prof[:, None, None]
            v[n] *= prof[:, None, None]
        elif kind == "random":  # i.i.d. node values, unambiguous
            rng = np.random.default_rng([vel.get("seed", 0), 0 if vel.get("steady") else n, 21])
            s = vel.get("scale", 1.0)
            u[n] = rng.uniform(-s, s, size=u[n].shape)
            v[n] = rng.uniform(-s, s, size=v[n].shape)
        elif kind == "linear3d":  # a + b x + c y + d z + e t  (z = level depth over a flat bottom)
            z = zr[:, 0, 0]  # flat bottom assumed by the caller
            for k in range(N):
                u[n, k] = vel["u0"] + vel.get("ux", 0) * Xu + vel.get("uy", 0) * Yu + vel.get("uz", 0) * z[k] + vel.get("ut", 0) * tsec[n]
                v[n, k] = vel["v0"] + vel.get("vx", 0) * Xv + vel.get("vy", 0) * Yv + vel.get("vz", 0) * z[k] + vel.get("vt", 0) * tsec[n]
        elif kind == "linear_levels":  # a_k + b_k x + c_k y per level
            for k in range(N):
                c = vel["coef"][k]
                u[n, k] = c[0] + c[1] * Xu + c[2] * Yu
                v[n, k] = c[3] + c[4] * Xv + c[5] * Yv
        else:
            uu, _ = flow(vel, Xu, Yu, tsec[n])
            _, vv = flow(vel, Xv, Yv, tsec[n])
            amp = vel.get("frame_amp")
            a = amp[n] if amp is not None else 1.0
            for k in range(N):
                u[n, k] = uu * prof[k] * a
                v[n, k] = vv * prof[k] * a
    return u, v


def scalar_frames(spec: dict[str, Any], nframes: int, tsec: list[float], N: int, jmax: int, imax: int, stag_w: bool = False):
    """Scalar field (nframes, N, jmax, imax)."""
    kind = spec["kind"]
    n_lev = N + 1 if stag_w else N
    F = np.zeros((nframes, n_lev, jmax, imax))
    X = np.arange(imax)[None, :] + 0.0 * np.arange(jmax)[:, None]
    Y = np.arange(jmax)[:, None] + 0.0 * np.arange(imax)[None, :]
    for n in range(nframes):
        for k in range(n_lev):
            if kind == "coded":  # identifies frame, level and cell
                F[n, k] = 1000.0 * (n + 1) + 10.0 * k + 0.01 * (Y * imax + X) / (jmax * imax)
            elif kind == "frame_level":
                F[n, k] = 100.0 * (n + 1) + k
            elif kind == "const":
                F[n, k] = spec["value"]
            elif kind == "const_frames":
                F[n, k] = spec["values"][n]
            elif kind == "xyt":  # f(x, y, t) = a + b*x + c*y + e*t, level independent
                F[n, k] = spec["a"] + spec["b"] * X + spec["c"] * Y + spec["e"] * tsec[n]
            elif kind == "random":
                rng = np.random.default_rng([spec.get("seed", 0), 0 if spec.get("steady") else n, k, 31])
                F[n, k] = rng.uniform(spec.get("lo", 0.0), spec.get("hi", 20.0), size=(jmax, imax))
            else:
                raise ValueError(kind)
    return F


# ----------------------------------------------------------------------------
# writer
# ----------------------------------------------------------------------------


def _grid_arrays(spec: dict[str, Any]):
    imax, jmax, N = spec["imax"], spec["jmax"], spec["N"]
    h = make_h(spec.get("h", {}), jmax, imax)
    M = make_mask(spec.get("mask", {}), jmax, imax)
    met = spec.get("metric", {"kind": "uniform", "dx": 1000.0, "dy": 1000.0})
    X = np.arange(imax)[None, :] + 0.0 * np.arange(jmax)[:, None]
    Y = np.arange(jmax)[:, None] + 0.0 * np.arange(imax)[None, :]
    if met["kind"] == "uniform":
        dx = np.full((jmax, imax), float(met["dx"]))
        dy = np.full((jmax, imax), float(met.get("dy", met["dx"])))
    elif met["kind"] == "polar":
        dx = polar_spacing(X, Y, met)
        dy = dx.copy()
    elif met["kind"] == "eta_linear":  # spacing grows from row to row (as on a grid that fans out)
        dx = float(met["dx"]) * (1.0 + met.get("slope", 0.04) * Y)
        dy = float(met.get("dy", met["dx"])) * (1.0 + met.get("slope", 0.04) * Y)
    elif met["kind"] == "varying":
        rng = np.random.default_rng([met.get("seed", 0), 13])
        dx = met["dx"] * (1 + met.get("var", 0.2) * rng.uniform(-1, 1, size=(jmax, imax)))
        dy = met.get("dy", met["dx"]) * (1 + met.get("var", 0.2) * rng.uniform(-1, 1, size=(jmax, imax)))
    else:
        raise ValueError(met["kind"])
    ll = spec.get("lonlat", {"kind": "index"})
    if ll["kind"] == "index":
        lon = ll.get("lon0", 0.0) + ll.get("dlon", 1.0) * X
        lat = ll.get("lat0", 0.0) + ll.get("dlat", 1.0) * Y
    elif ll["kind"] == "polar":
        lon, lat = polar_lonlat(X, Y, ll)
    else:
        raise ValueError(ll["kind"])
    vert = spec.get("vert", {})
    Vtransform = vert.get("Vtransform", 1)
    Vstretching = vert.get("Vstretching", 1)
    theta_s, theta_b = vert.get("theta_s", 3.0), vert.get("theta_b", 0.4)
    hc = float(vert.get("hc", 0.0))
    S_r, Cs_r = stretching(N, theta_s, theta_b, "rho", Vstretching)
    S_w, Cs_w = stretching(N, theta_s, theta_b, "w", Vstretching)
    zr = level_depths(h, hc, S_r, Cs_r, Vtransform)
    zw = level_depths(h, hc, S_w, Cs_w, Vtransform)
    return dict(h=h, mask=M, dx=dx, dy=dy, lon=lon, lat=lat, hc=hc, Cs_r=Cs_r, Cs_w=Cs_w,
                Vtransform=Vtransform, zr=zr, zw=zw)


def _write_grid_vars(nc: Dataset, spec: dict[str, Any], G: dict[str, Any]) -> None:
    imax, jmax, N = spec["imax"], spec["jmax"], spec["N"]
    nc.createDimension("xi_rho", imax)
    nc.createDimension("eta_rho", jmax)
    nc.createDimension("xi_u", imax - 1)
    nc.createDimension("eta_u", jmax)
    nc.createDimension("xi_v", imax)
    nc.createDimension("eta_v", jmax - 1)
    nc.createDimension("s_rho", N)
    nc.createDimension("s_w", N + 1)
    for name, arr in (("h", G["h"]), ("mask_rho", G["mask"]), ("pm", 1.0 / G["dx"]), ("pn", 1.0 / G["dy"]),
                      ("lon_rho", G["lon"]), ("lat_rho", G["lat"]), ("angle", np.zeros_like(G["h"]))):
        v = nc.createVariable(name, "f8", ("eta_rho", "xi_rho"))
        v[:] = arr
    if spec.get("staggered_masks"):  # as real ROMS grid files have them: land masks at u-, v- and psi-points
        M_ = G["mask"]
        for name, arr, dims in (("mask_u", M_[:, :-1] * M_[:, 1:], ("eta_u", "xi_u")), ("mask_v", M_[:-1, :] * M_[1:, :], ("eta_v", "xi_v"))):
            v = nc.createVariable(name, "f8", dims)
            v[:] = arr
    v = nc.createVariable("hc", "f8", ())
    v[...] = G["hc"]
    v = nc.createVariable("Cs_r", "f8", ("s_rho",))
    v[:] = G["Cs_r"]
    v = nc.createVariable("Cs_w", "f8", ("s_w",))
    v[:] = G["Cs_w"]
    if spec.get("vert", {}).get("write_Vtransform", True):
        v = nc.createVariable("Vtransform", "i4", ())
        v[...] = G["Vtransform"]
    if spec.get("vert", {}).get("Tcline") is not None:  # ROMS history files carry the input parameter Tcline next to hc (hc = min(hmin, Tcline) for Vtransform 1)
        v = nc.createVariable("Tcline", "f8", ())
        v[...] = spec["vert"]["Tcline"]
    if spec.get("vert", {}).get("write_Vstretching", False):
        v = nc.createVariable("Vstretching", "i4", ())
        v[...] = spec["vert"].get("Vstretching", 1)


def write_world(dirpath: Path | str, spec: dict[str, Any]) -> dict[str, Any]:
    """Write grid.nc and forcing files f_000.nc ... into dirpath.  Returns paths and arrays."""
    d = Path(dirpath)
    d.mkdir(parents=True, exist_ok=True)
    imax, jmax, N = spec["imax"], spec["jmax"], spec["N"]
    G = _grid_arrays(spec)

    gridfile = d / "grid.nc"
    with Dataset(gridfile, "w", format="NETCDF4") as nc:
        _write_grid_vars(nc, spec, G)

    t0 = np.datetime64(spec["t0"], "s")
    offsets = list(spec["frames"])  # seconds after t0 (may be negative)
    counts = list(spec.get("files", [len(offsets)]))
    assert sum(counts) == len(offsets), (counts, offsets)
    nfr = len(offsets)
    tsec = [float(o) for o in offsets]
    u, v = field_frames(spec.get("vel", {"kind": "zero"}), nfr, tsec, N, jmax, imax, G["zr"])
    for n in spec.get("land_zero_frames", []):  # frames stored with zeros on land faces (plain model output); the others carry values there (filled files)
        u[n] *= (G["mask"][:, :-1] * G["mask"][:, 1:])[None]
        v[n] *= (G["mask"][:-1, :] * G["mask"][1:, :])[None]
    scal = {}
    for name, s in spec.get("scalars", {}).items():
        scal[name] = scalar_frames(s, nfr, tsec, N, jmax, imax, stag_w=s.get("w_levels", False))
    pack = spec.get("pack") or {}
    store = spec.get("store", "f4")
    time_units = spec.get("time_units", "seconds since 1970-01-01 00:00:00")
    unit_div = {"seconds": 1.0, "hours": 3600.0, "days": 86400.0}[time_units.split()[0]]
    ref = np.datetime64(time_units.split("since")[1].strip().replace(" ", "T"), "s")

    files = []
    start = 0
    prefix = spec.get("file_prefix", "f_")
    pack_all = pack
    per_file = spec.get("pack_per_file")
    for fi, cnt in enumerate(counts):
        pack = dict(pack_all, **per_file[fi % len(per_file)]) if per_file else pack_all
        fname = d / (spec["file_names"][fi] if spec.get("file_names") else f"{prefix}{fi:03d}.nc")  # explicit names must sort in time order
        with Dataset(fname, "w", format="NETCDF4") as nc:
            if spec.get("grid_in_forcing", True):
                _write_grid_vars(nc, spec, G)
            else:
                nc.createDimension("xi_rho", imax)
                nc.createDimension("eta_rho", jmax)
                nc.createDimension("xi_u", imax - 1)
                nc.createDimension("eta_u", jmax)
                nc.createDimension("xi_v", imax)
                nc.createDimension("eta_v", jmax - 1)
                nc.createDimension("s_rho", N)
                nc.createDimension("s_w", N + 1)
            nc.createDimension("ocean_time", None)
            tv = nc.createVariable("ocean_time", "f8", ("ocean_time",))
            tu_, div_, ref_ = time_units, unit_div, ref
            if spec.get("time_units_per_file"):  # every file with its own unit / reference time (files from different model runs)
                tu_ = spec["time_units_per_file"][fi % len(spec["time_units_per_file"])]
                div_ = {"seconds": 1.0, "hours": 3600.0, "days": 86400.0}[tu_.split()[0]]
                ref_ = np.datetime64(tu_.split("since")[1].strip().replace(" ", "T"), "s")
            tv.units = tu_
            sl = slice(start, start + cnt)
            abs_t = [(t0 + np.timedelta64(int(np.floor(o)), "s")) for o in offsets[sl]]  # whole seconds exactly, the sub-second part (if any) added as a float
            tv[:] = [(float((t - ref_) / np.timedelta64(1, "s")) + (float(o) - float(np.floor(o)))) / div_ for t, o in zip(abs_t, offsets[sl])]
            for name, arr, dims in (
                ("u", u[sl], ("ocean_time", "s_rho", "eta_u", "xi_u")),
                ("v", v[sl], ("ocean_time", "s_rho", "eta_v", "xi_v")),
            ):
                if name in pack:
                    var = nc.createVariable(name, "i2", dims)
                    var.scale_factor = np.float32(pack[name])
                    var.add_offset = np.float32(0.0)
                    var.set_auto_maskandscale(False)
                    var[:] = np.round(arr / pack[name]).astype("i2")
                else:
                    var = nc.createVariable(name, store, dims)
                    var[:] = arr
            for name, arr in scal.items():
                zdim = "s_w" if arr.shape[1] == N + 1 else "s_rho"
                dims = ("ocean_time", zdim, "eta_rho", "xi_rho")
                if name in pack:
                    sc, off = pack[name]
                    var = nc.createVariable(name, "i2", dims)
                    var.scale_factor = np.float32(sc)
                    var.add_offset = np.float32(off)
                    var.set_auto_maskandscale(False)
                    var[:] = np.round((arr[sl] - off) / sc).astype("i2")
                else:
                    var = nc.createVariable(name, spec.get("scalar_store", "f8"), dims)
                    var[:] = arr[sl]
        files.append(fname)
        start += cnt
    return dict(dir=d, gridfile=gridfile, files=files, pattern=str(d / f"{prefix}*.nc"), G=G,
                frame_times=[t0 + np.timedelta64(int(np.floor(o)), "s") for o in offsets])
