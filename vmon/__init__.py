"""Runtime monitors for bjornaa/ladim2 (see /verif/DESIGN.md)."""
