"""./check <property> [--tier quick|thorough] [--replay FILE]

Exit 0: held on everything explored.  Exit 1: VIOLATION line(s) printed.  Exit 2: inconclusive
(a deciding monitor observed nothing, or a watchdog fired).  Exit 3: harness error."""

from __future__ import annotations

import argparse
import hashlib
import importlib
import json
import os
import sys
import time
from collections import Counter
from pathlib import Path

from vmon import findings
from vmon.env import VERIF, ensure_deps


def main() -> int:
    import signal  # noqa: PLC0415

    signal.signal(signal.SIGPIPE, signal.SIG_DFL)  # `./check ... | head` must not end in a traceback
    ap = argparse.ArgumentParser()
    ap.add_argument("prop")
    ap.add_argument("--tier", default=os.environ.get("VERIF_TIER", "quick"), choices=["quick", "thorough"])
    ap.add_argument("--replay", default=None)
    ap.add_argument("--limit", type=int, default=None, help="debug: only the first N cases")
    ap.add_argument("--no-evidence", action="store_true")
    ap.add_argument("--dump", default=None, help="debug: write all cases and results to this JSON file")
    args = ap.parse_args()
    prop = args.prop
    seed = int(os.environ.get("VERIF_SEED", "0"))
    t0 = time.time()
    ensure_deps()
    from vmon.runner import run_cases  # noqa: PLC0415

    mod = importlib.import_module(f"vmon.props.{prop}")
    replay = None
    if args.replay:
        replay = json.loads(Path(args.replay).read_text())
        cases = [replay["case"]]
    else:
        cases = mod.gen_cases(args.tier, seed)
        if args.limit:
            cases = cases[: args.limit]
    boundscheck = getattr(mod, "BOUNDSCHECK", False)
    timeout = getattr(mod, "TIMEOUT", {}).get(args.tier, 1500.0)
    results = run_cases(prop, cases, timeout=timeout, boundscheck=boundscheck, min_cases_per_batch=getattr(mod, "MIN_CASES_PER_PROCESS", 3))  # several cases per process by default: state that survives from one run to the next in a process is part of what is monitored
    extra = []
    if hasattr(mod, "post") and not args.replay:
        extra = mod.post(cases, results, args.tier) or []

    if args.dump:
        Path(args.dump).write_text(json.dumps(dict(cases=cases, results=results), default=str))
    known = findings.load()
    situations: Counter = Counter()
    counters: Counter = Counter()
    keys = set()
    extra_distinct = 0
    nviol = 0
    nknown = 0
    harness = []
    inconclusive = []
    samples = []
    viol_lines = []
    known_lines = []
    rdir = VERIF / "replays" / prop
    for case, res in zip(cases, results):
        if res.get("harness_error"):
            harness.append(res["harness_error"])
            continue
        if res.get("inconclusive"):
            inconclusive.append(res["inconclusive"])
            if res.get("died_in_case") and getattr(mod, "CHILD_DEATH_IS_VIOLATION", False):
                res.setdefault("violations", []).append(dict(
                    what=f"interpreter died while ladim was running (return code {res.get('returncode')})",
                    detail=dict(log_tail=res.get("log_tail", "")[-800:])))
                inconclusive.pop()
        for k, v in res.get("situations", {}).items():
            situations[k] += int(v)
        for k, v in res.get("counters", {}).items():
            if k.startswith("min_"):
                counters[k] = min(counters.get(k, int(v)), int(v))
            elif k.startswith("max_"):
                counters[k] = max(counters.get(k, int(v)), int(v))
            else:
                counters[k] += int(v)
        if res.get("nontrivial"):
            keys.add(res.get("key") or _hash(case))
            extra_distinct += max(0, int(res.get("distinct_count", 1)) - 1)
        if res.get("sample") is not None and len(samples) < 5:
            samples.append(res["sample"])
        for v in res.get("violations", []):
            kf = findings.match(prop, v, known)
            if kf is not None:
                nknown += 1
                line = f"KNOWN-FINDING: property={prop} {kf['id']} {kf['what']}"
                if line not in known_lines:
                    known_lines.append(line)
                continue
            nviol += 1
            if len(viol_lines) < 20:
                rdir.mkdir(parents=True, exist_ok=True)
                rp = rdir / f"{_hash(case)}.json"
                rp.write_text(json.dumps(dict(property=prop, seed=seed, tier=args.tier, case=case, violation=v), indent=1, default=str))
                viol_lines.append((rp, v))
    for v in extra:
        kf = findings.match(prop, v, known)
        if kf is not None:
            nknown += 1
            continue
        nviol += 1
        rdir.mkdir(parents=True, exist_ok=True)
        rp = rdir / f"post_{_hash(v)}.json"
        rp.write_text(json.dumps(dict(property=prop, seed=seed, tier=args.tier, case=v.get("case"), violation=v), indent=1, default=str))
        viol_lines.append((rp, v))

    mandatory = getattr(mod, "MANDATORY", [])
    missing = [m for m in mandatory if situations.get(m, 0) == 0 and counters.get(m, 0) == 0]
    if args.replay or args.limit:
        missing = []
    wall = time.time() - t0
    if not samples:
        samples = [c for c in cases[:3]]
    cov = dict(
        evaluations=len(cases),
        distinct_nontrivial=len(keys) + extra_distinct,
        rule=getattr(mod, "RULE", ""),
        samples=samples,
        situations=dict(situations),
        monitor_counters=dict(counters),
        mandatory_situations=mandatory,
        exhaustive=bool(getattr(mod, "EXHAUSTIVE", {}).get(args.tier, False)),
        known_finding_hits=nknown,
        inconclusive_cases=len(inconclusive),
    )
    ev = dict(
        property_id=prop,
        tier=args.tier,
        seed=seed,
        level=getattr(mod, "LEVEL", "exploration"),
        coverage=cov,
        assumptions=getattr(mod, "ASSUMPTIONS", []),
        wall_s=round(wall, 2),
        violations=nviol,
    )
    if not args.no_evidence and not args.replay and not args.limit:
        edir = VERIF / "evidence"
        edir.mkdir(exist_ok=True)
        (edir / f"{prop}.json").write_text(json.dumps(ev, indent=1, default=str))

    print(f"[{prop}] tier={args.tier} seed={seed} cases={len(cases)} nontrivial-distinct={len(keys)} "
          f"violations={nviol} known={nknown} inconclusive={len(inconclusive)} harness_errors={len(harness)} wall={wall:.1f}s")
    if situations:
        print("  situations: " + ", ".join(f"{k}={v}" for k, v in sorted(situations.items())))
    if counters:
        print("  monitor counters: " + ", ".join(f"{k}={v}" for k, v in sorted(counters.items())))
    for line in known_lines:
        print(line)
    if harness:
        print("HARNESS-ERROR (not a verdict):")
        print(harness[0][-3000:])
        return 3
    if nviol:
        for rp, v in viol_lines:
            print(f"VIOLATION property={prop} replay={rp}")
            print(f"  what: {v.get('what')}")
        return 1
    if inconclusive:
        print(f"INCONCLUSIVE property={prop}: {inconclusive[0]}")
        return 2
    if missing:
        print(f"INCONCLUSIVE property={prop}: mandatory situations never observed: {missing}")
        return 2
    if len(keys) < 2 and not args.replay and not args.limit:
        print(f"INCONCLUSIVE property={prop}: fewer than two non-trivial cases")
        return 2
    return 0


def _hash(obj) -> str:
    return hashlib.sha1(json.dumps(obj, sort_keys=True, default=str).encode()).hexdigest()[:12]


if __name__ == "__main__":
    sys.exit(main())
