"""Recording IBM plug-in, loaded by ladim itself through `ibm: {module: <this file>}`.

Logs a snapshot of the state at every IBM.update (i.e. after the particles moved), and
kills / deactivates particles by schedule (keys = model step, values = list of pids or "all")."""

import numpy as np

from vmon import rec


def _sched(d):
    return {int(k): v for k, v in (d or {}).items()}


class IBM:
    def __init__(self, modules, **kwargs):
        self.modules = modules
        self.state = modules["state"]
        self.timer = modules["time"]
        self.kill = _sched(kwargs.get("kill"))
        self.kill_tag = _sched(kwargs.get("kill_tag"))  # by release-row tag `rid`
        self.deactivate_time = dict(kwargs.get("deactivate_time") or {})
        self.kill_time = dict(kwargs.get("kill_time") or {})  # keys = model time (ISO string): independent of where a (warm-started) run begins to count steps
        self.deactivate = _sched(kwargs.get("deactivate"))
        self.deactivate_tag = _sched(kwargs.get("deactivate_tag"))
        self.activate = _sched(kwargs.get("activate"))
        self.age = kwargs.get("age", False)
        self.lifetime = kwargs.get("lifetime")  # seconds
        self.weight_from = kwargs.get("weight_from")
        self.weight_from_position = kwargs.get("weight_from_position", False)  # state that depends on where the particle is when the IBM runs
        self.log = kwargs.get("log", True)
        self.dtsec = float(modules["time"].dt / np.timedelta64(1, "s"))
        self.ncalls = 0
        self.nclose = 0
        rec.CALLS.append(("ibm.init",))

    def _sel(self, spec):
        pid = self.state.pid
        if spec == "all":
            return np.ones(len(pid), bool)
        return np.isin(pid, np.asarray(spec, dtype=int))

    def update(self):
        st = self.state
        step = int(self.timer.step)
        self.ncalls += 1
        rec.CALLS.append(("ibm.update", step))
        if self.log:
            snap = dict(step=step, time=str(self.timer.time), pid=st.pid.copy(), X=st.X.copy(), Y=st.Y.copy(),
                        Z=st.Z.copy(), alive=st.alive.copy(), active=st.active.copy())
            forcing = self.modules.get("forcing")
            if forcing is not None and hasattr(forcing, "variables"):
                snap["forcing"] = {k: np.array(v).copy() for k, v in forcing.variables.items()}
            rec.LOG.append(snap)
        if self.age:
            st["age"] = st["age"] + self.dtsec
        if self.weight_from:
            st["weight"] = st["weight"] + 0.01 * st[self.weight_from]
        if self.weight_from_position:
            st["weight"] = st["weight"] + 1.0e-3 * st.X + 0.7e-3 * st.Y + 1.0e-4 * st.Z
        if self.lifetime is not None:
            st["alive"] = st["alive"] & (st["age"] < self.lifetime - 0.5)
        if step in self.kill:
            st["alive"] = st["alive"] & ~self._sel(self.kill[step])
        if str(self.timer.time) in self.kill_time:
            st["alive"] = st["alive"] & ~self._sel(self.kill_time[str(self.timer.time)])
        if step in self.kill_tag:
            st["alive"] = st["alive"] & ~np.isin(st["rid"], np.asarray(self.kill_tag[step], dtype=int))
        if str(self.timer.time) in self.deactivate_time:
            st["active"] = st["active"] & ~self._sel(self.deactivate_time[str(self.timer.time)])
        if step in self.deactivate:
            st["active"] = st["active"] & ~self._sel(self.deactivate[step])
        if step in self.deactivate_tag:
            st["active"] = st["active"] & ~np.isin(st["rid"], np.asarray(self.deactivate_tag[step], dtype=int))
        if step in self.activate:
            st["active"] = st["active"] | self._sel(self.activate[step])

    def close(self):
        self.nclose += 1
        rec.CALLS.append(("ibm.close",))
