"""Analytic plug-in forcing: velocity = vmon.world.flow(spec) at model time (step + fractional_step) * dt.
Records every velocity request (positions, fraction) in vmon.rec.CALLS so that the stage positions and
fractional times a scheme uses become observable."""

import numpy as np

from vmon import rec
from vmon import world as W


class Forcing:
    def __init__(self, modules, flow=None, w=None, record=True, scalar=None, **kwargs):
        self.scalar = scalar  # temp = a + b*x + c*y + e*t (t = seconds after start), valid at the time of update()
        self.modules = modules
        self.flow = flow or dict(kind="zero")
        self.w = w
        self.record = record
        self.variables = dict(u=np.array([]), v=np.array([]))
        self.dt = float(modules["time"].dt / np.timedelta64(1, "s"))
        self.reversed = bool(getattr(modules["time"], "time_reversal", False))
        rec.CALLS.append(("forcing.init",))

    def update(self):
        st = self.modules["state"]
        step = int(self.modules["time"].step)
        rec.CALLS.append(("forcing.update", step, len(st.X)))
        self.variables["u"], self.variables["v"] = W.flow(self.flow, st.X, st.Y, step * self.dt)
        if self.w is not None:
            self.variables["w"] = np.full(len(st.X), float(self.w))
        if self.scalar is not None:
            s = self.scalar
            self.variables["temp"] = s["a"] + s["b"] * st.X + s["c"] * st.Y + s["e"] * step * self.dt
            st["temp"] = self.variables["temp"]

    def velocity(self, X, Y, Z, fractional_step=0, method="bilinear"):
        step = int(self.modules["time"].step)
        if self.record:
            rec.CALLS.append(("velocity", step, float(fractional_step), np.array(X, float).copy(), np.array(Y, float).copy()))
        u, v = W.flow(self.flow, X, Y, (step + fractional_step) * self.dt)
        return np.array(u, float), np.array(v, float)

    def close(self):
        rec.CALLS.append(("forcing.close",))
