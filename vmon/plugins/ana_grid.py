"""Analytic plug-in grid (loaded by ladim through `grid: {module: <this file>}` or built directly).
Uniform or piecewise-constant metric, optional land cells, flat or per-cell depth."""

import numpy as np

from vmon import rec


class Grid:
    def __init__(self, modules=None, xmin=0.0, xmax=50.0, ymin=0.0, ymax=40.0, dx=1000.0, dy=None, metric="uniform",
                 land=None, depth=100.0, depth_seed=None, hmin=5.0, hmax=200.0, **kwargs):
        self.modules = modules
        self.xmin, self.xmax, self.ymin, self.ymax = float(xmin), float(xmax), float(ymin), float(ymax)
        self.dx0 = float(dx)
        self.dy0 = float(dy if dy is not None else dx)
        self.metric_kind = metric
        nx, ny = int(self.xmax) + 3, int(self.ymax) + 3
        self.M = np.ones((ny, nx), dtype=int)
        for j, i in land or []:
            self.M[j, i] = 0
        if depth_seed is None:
            self.H = np.full((ny, nx), float(depth))
        else:
            self.H = np.random.default_rng([int(depth_seed), 77]).uniform(hmin, hmax, size=(ny, nx))
        if metric == "piecewise":
            r = np.random.default_rng([int(kwargs.get("metric_seed", 0)), 78])
            self.DX = self.dx0 * r.uniform(0.7, 1.3, size=(ny, nx))
            self.DY = self.dy0 * r.uniform(0.7, 1.3, size=(ny, nx))
        else:
            self.DX = np.full((ny, nx), self.dx0)
            self.DY = np.full((ny, nx), self.dy0)
        rec.CALLS.append(("grid.init",))

    def _ij(self, X, Y):
        return np.asarray(X).round().astype(int), np.asarray(Y).round().astype(int)

    def metric(self, X, Y):
        I, J = self._ij(X, Y)
        return self.DX[J, I], self.DY[J, I]

    def depth(self, X, Y):
        I, J = self._ij(X, Y)
        return self.H[J, I]

    def ingrid(self, X, Y):
        return (self.xmin + 0.5 < X) & (X < self.xmax - 0.5) & (self.ymin + 0.5 < Y) & (Y < self.ymax - 0.5)

    def atsea(self, X, Y):
        I, J = self._ij(X, Y)
        I = np.clip(I, 0, self.M.shape[1] - 1)
        J = np.clip(J, 0, self.M.shape[0] - 1)
        return self.M[J, I] > 0

    def close(self):
        rec.CALLS.append(("grid.close",))
