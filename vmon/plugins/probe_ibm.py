"""Probing IBM plug-in: at every step asks the forcing for the velocity at several fractional steps and
records the forcing-derived variables.  Loaded by ladim through `ibm: {module: <this file>}`."""

import numpy as np

from vmon import rec


class IBM:
    def __init__(self, modules, fractions=(0.0, 0.25, 0.5, 1.0), **kwargs):
        self.modules = modules
        self.fractions = [float(f) for f in fractions]
        rec.CALLS.append(("ibm.init",))

    def update(self):
        st = self.modules["state"]
        forcing = self.modules["forcing"]
        timer = self.modules["time"]
        snap = dict(step=int(timer.step), time=str(timer.time), n=len(st.X), vel={}, variables={})
        if len(st.X):
            for f in self.fractions:
                u, v = forcing.velocity(st.X, st.Y, st.Z, fractional_step=f)
                snap["vel"][f] = (np.array(u, float).copy(), np.array(v, float).copy())
        for k, val in forcing.variables.items():
            snap["variables"][k] = np.array(val, float).copy()
        snap["X"], snap["Y"], snap["Z"], snap["pid"] = st.X.copy(), st.Y.copy(), st.Z.copy(), st.pid.copy()
        rec.LOG.append(snap)

    def close(self):
        rec.CALLS.append(("ibm.close",))
