"""Recording output plug-in (loaded through `output: {module: <this file>}`): logs what a record would hold."""

import numpy as np

from vmon import rec


class Output:
    def __init__(self, modules, output_period=None, **kwargs):
        from ladim.timekeeper import normalize_period

        self.modules = modules
        self.period_step = int(normalize_period(output_period) // modules["time"].dt) if output_period else 1
        self.records = []
        rec.CALLS.append(("output.init",))

    def update(self):
        step = int(self.modules["time"].step)
        rec.CALLS.append(("output.update", step))
        if step % self.period_step == 0:
            st = self.modules["state"]
            alive = np.asarray(st.alive, bool)
            rec.CALLS.append(("output.write", step))
            rec.LOG.append(dict(kind="record", step=step, time=str(self.modules["time"].time), pid=st.pid[alive].copy(), X=st.X[alive].copy(), Y=st.Y[alive].copy(),
                                temp=np.asarray(st["temp"])[alive].copy() if "temp" in st.variables else None))

    def close(self):
        rec.CALLS.append(("output.close",))
