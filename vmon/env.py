"""Bootstrap: make sure the code under test is /repo's working tree and that
third-party monitor libraries (icontract) are importable from /verif/.deps."""

from __future__ import annotations

import os
import subprocess
import sys
from pathlib import Path

VERIF = Path(__file__).resolve().parents[1]
REPO = Path(os.environ.get("LADIM2_REPO", "/repo"))
DEPS = VERIF / ".deps"
GUARD = "LADIM2_VERIF"


def ensure_deps() -> None:
    if not (DEPS / "icontract").is_dir():
        subprocess.run(
            [
                sys.executable, "-m", "pip", "install", "-q", "--no-index",
                "--find-links", "/opt/veriftools/wheels", "--target", str(DEPS),
                "icontract",
            ],
            check=False,
            stdout=subprocess.DEVNULL,
            stderr=subprocess.DEVNULL,
        )


def bootstrap(boundscheck: bool = False) -> None:
    """Put /repo first on sys.path and verify ladim is imported from there."""
    if boundscheck:
        os.environ["NUMBA_BOUNDSCHECK"] = "1"
    os.environ.setdefault("NUMBA_DISABLE_PERFORMANCE_WARNINGS", "1")
    os.environ.setdefault("NUMBA_CACHE_DIR", str(Path(os.environ.get("TMPDIR", "/tmp")) / "vmon_numba_unused"))
    if str(REPO) not in sys.path[:1]:
        sys.path.insert(0, str(REPO))
    if str(VERIF) not in sys.path:
        sys.path.insert(1, str(VERIF))
    ensure_deps()
    if str(DEPS) not in sys.path:
        sys.path.append(str(DEPS))
    import ladim  # noqa: PLC0415

    where = Path(ladim.__file__).resolve()
    if REPO.resolve() not in where.parents:
        raise RuntimeError(f"ladim imported from {where}, expected under {REPO}")
