"""Regenerate MANIFEST.json from the property modules that exist (run from /verif)."""
import importlib, json, sys
from pathlib import Path
sys.path.insert(0, str(Path(__file__).resolve().parents[1]))
ALL = [f"C{i:02d}" for i in range(1, 21)]
checks, na = [], []
for p in ALL:
    f = Path("vmon/props") / f"{p}.py"
    if not f.exists():
        na.append(dict(property_id=p, reason="check not built yet in this session (work in progress; runtime monitoring applies, see DESIGN.md section 4)"))
        continue
    src = f.read_text()
    ns = {}
    # read the declarative constants without importing heavy deps
    import ast
    tree = ast.parse(src)
    for node in tree.body:
        if isinstance(node, ast.Assign) and len(node.targets) == 1 and isinstance(node.targets[0], ast.Name):
            name = node.targets[0].id
            if name in ("LEVEL", "TECHNIQUE", "LEVEL_TEXT", "LEVEL_NOTE", "DESIGN_REF"):
                ns[name] = ast.literal_eval(node.value)
    checks.append(dict(
        property_id=p,
        quick_cmd=f"./check {p} --tier quick",
        thorough_cmd=f"./check {p} --tier thorough",
        evidence_file=f"/verif/evidence/{p}.json",
        replay_cmd_template=f"./check {p} --replay {{path}}",
        engine="vmon",
        level_claimed=dict(category=ns.get("LEVEL", "exploration"), text=ns.get("LEVEL_TEXT", ""), design_ref=ns.get("DESIGN_REF", f"DESIGN.md section 4, {p}")),
        level_note=ns.get("LEVEL_NOTE", ""),
        technique=ns.get("TECHNIQUE", "runtime monitoring"),
    ))
m = dict(
    version=1,
    setup_cmd="./setup.sh",
    hooks=dict(
        guard="LADIM2_VERIF",
        enable="no source hooks in /repo: ./check sets LADIM2_VERIF=1 and the harness wraps methods of the real ladim classes at run time (vmon/hooks.py) and loads recording plug-ins through ladim's own module: mechanism",
        baseline_off_cmd="cd /repo && /venv/bin/python -m pytest -ra -q -p no:cacheprovider --timeout=900 --continue-on-collection-errors",
        source_commits=[],
        add_only=True,
    ),
    engines=[dict(name="vmon", path="/verif/vmon", serves_properties=[c["property_id"] for c in checks],
                  kind_free_text="runtime monitors over real executions of ladim from /repo's working tree: class/function hooks, recording plug-ins, NetCDF read-back checkers, reference models, pair monitors, numba bounds checking")],
    checks=checks,
    notes="All checks execute /repo's current working tree (sys.path[0]=/repo, asserted). Exit 0 held / 1 VIOLATION / 2 INCONCLUSIVE / 3 harness error. Genuine defects found and repaired are listed in known_findings.json (fixed:) and DESIGN.md section 3.",
    not_applicable=na,
)
Path("MANIFEST.json").write_text(json.dumps(m, indent=1) + "\n")
print("checks:", [c["property_id"] for c in checks], "not yet:", [n["property_id"] for n in na])
