#!/bin/bash
# usage: tools/seedbatch.sh <root with out_Cxx dirs> "<numbers>"   -- one summary block per seeded change
ROOT="$1"; shift
for i in $1; do
  D="$ROOT/out_C$i"
  [ -f "$D/patch.diff" ] || { echo "C$i: no patch yet"; continue; }
  echo "######## C$i"
  tools/seedeval.sh "$D" C$i 2>&1 | grep -E "^exit|passed|failed|== check|^\[C|what:|PATCH" | grep -v conda | cut -c1-260
done
