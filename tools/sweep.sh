#!/bin/bash
# usage: tools/sweep.sh "<seeds>" <tier> [props...]   -- runs checks without touching evidence, prints one line each
SEEDS="$1"; TIER="$2"; shift 2
PROPS="$@"; [ -z "$PROPS" ] && PROPS="C01 C02 C03 C04 C05 C06 C07 C08 C09 C10 C11 C12 C13 C14 C15 C16 C17 C18 C19 C20"
cd /verif
for s in $SEEDS; do for p in $PROPS; do
  out=$(VERIF_SEED=$s ./check $p --tier $TIER --no-evidence 2>&1); rc=$?
  echo "seed=$s $p rc=$rc $(echo "$out" | head -1 | cut -c1-160)"
  if [ $rc -ne 0 ]; then echo "$out" | grep -E "VIOLATION|what:|INCONCLUSIVE|HARNESS" | head -4 | cut -c1-300; fi
done; done
