#!/bin/bash
# usage: tools/withpatch.sh <patch.diff | -R:<commit>> <prop> [<prop> ...]
# Applies the change to a scratch worktree of /repo's HEAD (never to /repo itself), points the checks at it via LADIM2_REPO,
# runs the quick checks (TIER=thorough for the thorough tier) and removes the worktree.
P="$1"; shift
WT=${MUT_WORKTREE:-/tmp/vmon_patch_wt_$$}
git -C /repo worktree remove --force "$WT" >/dev/null 2>&1
git -C /repo worktree add -q --detach "$WT" HEAD || exit 9
cd "$WT" || exit 9
if [[ "$P" == -R:* ]]; then
  git show "${P#-R:}" | git apply -R || { git -C /repo worktree remove --force "$WT"; exit 9; }
else
  git apply "$P" || { git -C /repo worktree remove --force "$WT"; exit 9; }
fi
cd /verif
for c in "$@"; do
  LADIM2_REPO="$WT" ./check "$c" --no-evidence ${TIER:+--tier $TIER} 2>&1 | grep -E "^\[|VIOLATION|what:|INCONCLUSIVE|HARNESS|KNOWN" | head -${LINES_MAX:-6}
done
git -C /repo worktree remove --force "$WT"
