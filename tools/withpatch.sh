#!/bin/bash
# usage: tools/withpatch.sh <patch.diff | -R:<commit>> <prop> [<prop> ...]   (applies to /repo, runs quick checks, undoes)
P="$1"; shift
cd /repo || exit 9
if [ -n "$(git status --porcelain --untracked-files=no)" ]; then echo "repo dirty, refusing"; exit 9; fi
if [[ "$P" == -R:* ]]; then
  git show "${P#-R:}" | git apply -R || exit 9
else
  git apply "$P" || exit 9
fi
cd /verif
for c in "$@"; do
  VERIF_NOEVIDENCE=1 ./check "$c" --no-evidence ${TIER:+--tier $TIER} 2>&1 | grep -E "^\[|VIOLATION|what:|INCONCLUSIVE|HARNESS|KNOWN" | head -${LINES_MAX:-6}
done
git -C /repo checkout -- .
