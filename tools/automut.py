"""Self-validation by machine-generated single-token breaks (complements mutants.json and seeded/).

usage: /venv/bin/python tools/automut.py --n 200 --seed 1 --jobs 4 [--files state.py,tracker.py] [--out automut_results.jsonl]

Every candidate is one token-level edit of a ladim source file (comparison/arithmetic operator swapped, small constant
changed, `not`/unary minus dropped, and/or swapped, a statement replaced by pass, a condition negated).  Each selected
candidate is applied to its own scratch worktree of /repo's HEAD under /tmp (never to /repo), the quick checks are run
against it through LADIM2_REPO, most relevant check first, stopping at the first check that reports a VIOLATION.
A candidate that no check reports is a *survivor*: either an equivalent edit or a blind spot to look at by hand.
Nothing here is part of the registered checks."""
from __future__ import annotations

import argparse
import ast
import json
import os
import random
import subprocess
import sys
from concurrent.futures import ThreadPoolExecutor
from pathlib import Path

FILES = ["state.py", "timekeeper.py", "ROMS.py", "release.py", "tracker.py", "out_netcdf.py", "warm_start.py",
         "configure.py", "model.py", "main.py", "sample.py", "analytical.py", "forcing.py", "grid.py", "output.py", "ibm.py"]
ALL = [f"C{i:02d}" for i in range(1, 21)]
ORDER = {
    "timekeeper.py": ["C13", "C07", "C10", "C04", "C08"],
    "state.py": ["C05", "C06", "C04", "C14"],
    "ROMS.py": ["C02", "C03", "C12", "C16", "C17", "C09", "C20", "C15", "C01"],
    "release.py": ["C04", "C10", "C20", "C14", "C16"],
    "tracker.py": ["C01", "C09", "C11", "C15", "C17"],
    "out_netcdf.py": ["C06", "C07", "C16", "C08", "C05"],
    "warm_start.py": ["C08", "C19"],
    "configure.py": ["C18", "C20", "C13"],
    "model.py": ["C19", "C18", "C20", "C08"],
    "main.py": ["C19", "C18", "C20", "C08"],
    "sample.py": ["C16", "C02"],
    "analytical.py": ["C01"],
}
CMP = {ast.Lt: ("<", "<="), ast.LtE: ("<=", "<"), ast.Gt: (">", ">="), ast.GtE: (">=", ">"), ast.Eq: ("==", "!="),
       ast.NotEq: ("!=", "=="), ast.Is: ("is", "is not"), ast.IsNot: ("is not", "is")}
BIN = {ast.Add: ("+", "-"), ast.Sub: ("-", "+"), ast.Mult: ("*", "/"), ast.Div: ("/", "*"), ast.FloorDiv: ("//", "/"),
       ast.Mod: ("%", "//")}
AUG = {ast.Add: ("+=", "-="), ast.Sub: ("-=", "+="), ast.Mult: ("*=", "/="), ast.Div: ("/=", "*=")}


def offsets(src: str) -> list[int]:
    off = [0]
    for line in src.splitlines(keepends=True):
        off.append(off[-1] + len(line.encode()))
    return off


def candidates(fname: str, src: str) -> list[dict]:
    """(start, end, replacement, description) byte-span edits."""
    tree = ast.parse(src)
    b = src.encode()
    off = offsets(src)

    def pos(line: int, col: int) -> int:
        return off[line - 1] + col

    def span(n: ast.AST) -> tuple[int, int]:
        return pos(n.lineno, n.col_offset), pos(n.end_lineno, n.end_col_offset)

    out: list[dict] = []

    def add(s: int, e: int, new: str, what: str, line: int) -> None:
        out.append(dict(file=fname, start=s, end=e, new=new, what=what, line=line, old=b[s:e].decode()))

    def between(a: ast.AST, c: ast.AST, sym: str, new: str, what: str) -> None:
        s, e = span(a)[1], span(c)[0]
        seg = b[s:e].decode()
        k = seg.find(sym)
        if k < 0:
            return
        add(s + k, s + k + len(sym), new, what, a.end_lineno)

    docstrings = set()
    for n in ast.walk(tree):
        if isinstance(n, (ast.FunctionDef, ast.ClassDef, ast.Module)) and n.body and isinstance(n.body[0], ast.Expr) and isinstance(
                getattr(n.body[0], "value", None), ast.Constant) and isinstance(n.body[0].value.value, str):
            docstrings.add(id(n.body[0]))

    def is_log(call: ast.AST) -> bool:
        if not isinstance(call, ast.Call):
            return False
        f = call.func
        txt = ast.unparse(f)
        return txt.startswith(("logger.", "logging.", "print", "DEBUG", "warnings."))

    skip_ids: set[int] = set()
    for n in ast.walk(tree):     # nothing inside logging calls, main guards or annotations
        if is_log(n):
            for m in ast.walk(n):
                skip_ids.add(id(m))
        if isinstance(n, ast.If) and "__name__" in ast.unparse(n.test):
            for m in ast.walk(n):
                skip_ids.add(id(m))
        if isinstance(n, (ast.FunctionDef,)):
            for a in [n.returns] + [x.annotation for x in n.args.args + n.args.kwonlyargs]:
                if a is not None:
                    for m in ast.walk(a):
                        skip_ids.add(id(m))
        if isinstance(n, ast.AnnAssign):
            for m in ast.walk(n.annotation):
                skip_ids.add(id(m))

    for n in ast.walk(tree):
        if id(n) in skip_ids:
            continue
        if isinstance(n, ast.Compare):
            left = n.left
            for op, right in zip(n.ops, n.comparators):
                if type(op) in CMP:
                    sym, new = CMP[type(op)]
                    between(left, right, sym, new, f"compare {sym} -> {new}")
                left = right
        elif isinstance(n, ast.BinOp) and type(n.op) in BIN:
            if isinstance(n.left, ast.Constant) and isinstance(n.left.value, str):
                continue
            sym, new = BIN[type(n.op)]
            between(n.left, n.right, sym, new, f"binop {sym} -> {new}")
        elif isinstance(n, ast.AugAssign) and type(n.op) in AUG:
            sym, new = AUG[type(n.op)]
            between(n.target, n.value, sym, new, f"augassign {sym} -> {new}")
        elif isinstance(n, ast.BoolOp):
            sym, new = ("and", "or") if isinstance(n.op, ast.And) else ("or", "and")
            between(n.values[0], n.values[1], sym, new, f"boolop {sym} -> {new}")
        elif isinstance(n, ast.UnaryOp) and isinstance(n.op, (ast.Not, ast.USub)):
            s, e = span(n)
            s2 = span(n.operand)[0]
            add(s, s2, "", "drop " + ("not" if isinstance(n.op, ast.Not) else "unary minus"), n.lineno)
        elif isinstance(n, ast.Constant) and not isinstance(n.value, (str, bytes)) and n.value is not None and n.value is not Ellipsis:
            s, e = span(n)
            v = n.value
            if isinstance(v, bool):
                add(s, e, str(not v), f"constant {v} -> {not v}", n.lineno)
            elif isinstance(v, int):
                add(s, e, str(v + 1), f"constant {v} -> {v + 1}", n.lineno)
                if v != 0:
                    add(s, e, str(v - 1), f"constant {v} -> {v - 1}", n.lineno)
            elif isinstance(v, float):
                add(s, e, repr(v * 2 if v else 1.0), f"constant {v} -> {v * 2 if v else 1.0}", n.lineno)
        elif isinstance(n, (ast.If, ast.While)) and not isinstance(n.test, ast.Constant):
            s, e = span(n.test)
            add(s, e, "not (" + b[s:e].decode() + ")", "negate condition", n.lineno)
        if isinstance(n, (ast.Expr, ast.Assign, ast.AugAssign)) and id(n) not in docstrings and n.col_offset > 0:
            if isinstance(n, ast.Expr) and is_log(n.value):
                continue
            s, e = span(n)
            add(s, e, "pass", "statement -> pass: " + b[s:e].decode().splitlines()[0][:60], n.lineno)
    return out


def apply(src: str, c: dict) -> str:
    b = src.encode()
    return (b[:c["start"]] + c["new"].encode() + b[c["end"]:]).decode()


def run_one(k: int, c: dict, slot: int, nproc: int, tier: str) -> dict:
    wt = Path(f"/tmp/vmon_automut_{slot}")
    f = wt / "ladim" / c["file"]
    orig = f.read_text()
    res = dict(c, k=k, results={})
    try:
        new = apply(orig, c)
        try:
            compile(new, str(f), "exec")
        except SyntaxError:
            res["verdict"] = "does-not-compile"
            return res
        f.write_text(new)
        order = ORDER.get(c["file"], []) + [p for p in ALL if p not in ORDER.get(c["file"], [])]
        env = dict(os.environ, LADIM2_REPO=str(wt), VERIF_NPROC=str(nproc))
        verdict = "SURVIVED"
        for p in order:
            cp = subprocess.run(["./check", p, "--no-evidence", "--tier", tier], capture_output=True, text=True, env=env, cwd="/verif")
            res["results"][p] = cp.returncode
            if cp.returncode == 1:
                first = next((l.strip() for l in cp.stdout.splitlines() if l.strip().startswith("what:")), "")
                res["caught_by"], res["first"] = p, first[:160]
                verdict = "caught"
                break
        if verdict != "caught" and any(r in (2, 3) for r in res["results"].values()):
            verdict = "only-inconclusive-or-harness-error"
        res["verdict"] = verdict
        return res
    finally:
        f.write_text(orig)


def main() -> None:
    ap = argparse.ArgumentParser()
    ap.add_argument("--n", type=int, default=100)
    ap.add_argument("--seed", type=int, default=1)
    ap.add_argument("--jobs", type=int, default=4)
    ap.add_argument("--files", default="")
    ap.add_argument("--tier", default="quick")
    ap.add_argument("--out", default="/verif/.work/automut_results.jsonl")
    ap.add_argument("--list", action="store_true")
    a = ap.parse_args()
    files = a.files.split(",") if a.files else FILES
    cands: list[dict] = []
    for fn in files:
        src = (Path("/repo/ladim") / fn).read_text()
        cands.extend(candidates(fn, src))
    print(f"{len(cands)} candidates in {len(files)} files", flush=True)
    if a.list:
        for c in cands:
            print(c["file"], c["line"], c["what"])
        return
    rnd = random.Random(a.seed)
    rnd.shuffle(cands)
    sel = cands[:a.n]
    Path(a.out).parent.mkdir(parents=True, exist_ok=True)
    for s in range(a.jobs):
        wt = f"/tmp/vmon_automut_{s}"
        subprocess.run(["git", "-C", "/repo", "worktree", "remove", "--force", wt], capture_output=True)
        subprocess.run(["git", "-C", "/repo", "worktree", "add", "-q", "--detach", wt, "HEAD"], check=True)
    nproc = max(2, 16 // a.jobs)
    import queue
    slots: "queue.Queue[int]" = queue.Queue()
    for s in range(a.jobs):
        slots.put(s)

    def job(kc):
        k, c = kc
        s = slots.get()
        try:
            r = run_one(k, c, s, nproc, a.tier)
        finally:
            slots.put(s)
        with open(a.out, "a") as fh:
            fh.write(json.dumps(r) + "\n")
        print(f"[{k}] {r['verdict']:10s} {c['file']}:{c['line']} {c['what'][:70]} {r.get('caught_by', '')} {r['results'] if r['verdict'] != 'caught' else ''}", flush=True)
        return r

    with ThreadPoolExecutor(max_workers=a.jobs) as ex:
        rs = list(ex.map(job, enumerate(sel)))
    for s in range(a.jobs):
        subprocess.run(["git", "-C", "/repo", "worktree", "remove", "--force", f"/tmp/vmon_automut_{s}"], capture_output=True)
    from collections import Counter
    print(Counter(r["verdict"] for r in rs))


if __name__ == "__main__":
    main()
