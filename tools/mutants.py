"""Self-validation: apply each deliberate break (search/replace on /repo's tree), run the listed quick checks,
undo with git checkout.  usage: /venv/bin/python tools/mutants.py [id-prefix ...]   (run from /verif)
A break is 'caught' when the check exits 1 with a VIOLATION line; exit 2/3 is reported as such."""
import json, subprocess, sys, os
from pathlib import Path
# the breaks are applied to a scratch worktree of /repo's HEAD (never to /repo itself: other runs may be using it);
# the checks are pointed at it through LADIM2_REPO
REPO = Path(os.environ.get("MUT_WORKTREE", "/tmp/vmon_mut_wt"))
subprocess.run(["git", "-C", "/repo", "worktree", "remove", "--force", str(REPO)], capture_output=True)
subprocess.run(["git", "-C", "/repo", "worktree", "add", "-q", "--detach", str(REPO), "HEAD"], check=True)
os.environ["LADIM2_REPO"] = str(REPO)
M = json.loads(Path("mutants.json").read_text())
sel = sys.argv[1:]
rows = []
for m in M:
    if sel and not any(m["id"].startswith(s) or s in m["props"] for s in sel):
        continue
    f = REPO / m["file"]
    src = f.read_text()
    if src.count(m["old"]) != 1:
        rows.append((m["id"], "PATCH-DOES-NOT-APPLY", m["what"]))
        continue
    try:
        f.write_text(src.replace(m["old"], m["new"]))
        for p in m["props"]:
            env = dict(os.environ)
            cp = subprocess.run(["./check", p, "--no-evidence", "--tier", os.environ.get("TIER", "quick")], capture_output=True, text=True, env=env)
            first = next((l.strip() for l in cp.stdout.splitlines() if l.strip().startswith("what:")), "")
            status = {0: "MISSED", 1: "caught", 2: "inconclusive", 3: "HARNESS-ERROR"}.get(cp.returncode, str(cp.returncode))
            rows.append((m["id"], f"{p}:{status}", m["what"] + (" | " + first[:110] if first else "")))
            print(rows[-1], flush=True)
    finally:
        subprocess.run(["git", "-C", str(REPO), "checkout", "--", "."], check=True)
subprocess.run(["git", "-C", "/repo", "worktree", "remove", "--force", str(REPO)], capture_output=True)
print()
for r in rows:
    print("%-6s %-22s %s" % r)
