"""Self-validation: apply each deliberate break (search/replace on /repo's tree), run the listed quick checks,
undo with git checkout.  usage: /venv/bin/python tools/mutants.py [id-prefix ...]   (run from /verif)
A break is 'caught' when the check exits 1 with a VIOLATION line; exit 2/3 is reported as such."""
import json, subprocess, sys, os
from pathlib import Path
REPO = Path("/repo")
M = json.loads(Path("mutants.json").read_text())
sel = sys.argv[1:]
dirty = subprocess.run(["git", "-C", str(REPO), "status", "--porcelain", "--untracked-files=no"], capture_output=True, text=True).stdout.strip()
if dirty:
    sys.exit("repo dirty, refusing")
rows = []
for m in M:
    if sel and not any(m["id"].startswith(s) or s in m["props"] for s in sel):
        continue
    f = REPO / m["file"]
    src = f.read_text()
    if src.count(m["old"]) != 1:
        rows.append((m["id"], "PATCH-DOES-NOT-APPLY", m["what"]))
        continue
    try:
        f.write_text(src.replace(m["old"], m["new"]))
        for p in m["props"]:
            env = dict(os.environ)
            cp = subprocess.run(["./check", p, "--no-evidence", "--tier", os.environ.get("TIER", "quick")], capture_output=True, text=True, env=env)
            first = next((l.strip() for l in cp.stdout.splitlines() if l.strip().startswith("what:")), "")
            status = {0: "MISSED", 1: "caught", 2: "inconclusive", 3: "HARNESS-ERROR"}.get(cp.returncode, str(cp.returncode))
            rows.append((m["id"], f"{p}:{status}", m["what"] + (" | " + first[:110] if first else "")))
            print(rows[-1], flush=True)
    finally:
        subprocess.run(["git", "-C", str(REPO), "checkout", "--", "."], check=True)
print()
for r in rows:
    print("%-6s %-22s %s" % r)
