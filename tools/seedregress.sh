#!/bin/bash
# usage: tools/seedregress.sh [first] [last]  -- re-runs every saved independent change against the quick check of its property (scratch worktree, never /repo)
cd /verif
A=${1:-1}; B=${2:-999}
for d in $(ls -d seeded/S* | sort -t S -k2 -n); do
  n=${d##*S}; [ "$n" -ge "$A" ] && [ "$n" -le "$B" ] || continue
  prop=$(/venv/bin/python -c "import json,sys; print(json.load(open('$d/meta.json'))['breaks_property'])")
  if /venv/bin/python -c "import json,sys; sys.exit(0 if json.load(open('$d/meta.json')).get('applies_to_head', True) else 1)"; then :; else echo "S$n $prop SKIPPED (meta.json: applies_to_head false)"; continue; fi
  WT=/tmp/vmon_regress_wt_$$
  git -C /repo worktree remove --force "$WT" >/dev/null 2>&1
  git -C /repo worktree add -q --detach "$WT" HEAD || exit 9
  if (cd "$WT" && git apply "/verif/$d/patch.diff" 2>/dev/null); then
    out=$(LADIM2_REPO="$WT" ./check "$prop" --no-evidence 2>&1); rc=$?
    echo "S$n $prop rc=$rc $(echo "$out" | head -1 | grep -o 'violations=[0-9]*')"
  else
    echo "S$n $prop PATCH-DOES-NOT-APPLY-TO-HEAD"
  fi
  git -C /repo worktree remove --force "$WT" >/dev/null 2>&1
done
