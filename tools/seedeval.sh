#!/bin/bash
# usage: tools/seedeval.sh <dir with patch.diff + demo.py> <prop> [more props]   -- confirms a seeded change and runs checks against it
D="$1"; shift
WT=/tmp/vmon_seed_wt_$$
git -C /repo worktree remove --force "$WT" >/dev/null 2>&1
git -C /repo worktree add -q --detach "$WT" HEAD || exit 9
echo "== demo on unchanged tree"; (cd /tmp && PYTHONPATH="$WT" timeout 900 /venv/bin/python "$D/demo.py" "$WT" >/tmp/seed_demo_clean.log 2>&1; echo "exit $?"; tail -2 /tmp/seed_demo_clean.log | cut -c1-200)
(cd "$WT" && git apply "$D/patch.diff") || { echo "PATCH DOES NOT APPLY"; git -C /repo worktree remove --force "$WT"; exit 9; }
echo "== demo with the change"; (cd /tmp && PYTHONPATH="$WT" timeout 900 /venv/bin/python "$D/demo.py" "$WT" >/tmp/seed_demo_mut.log 2>&1; echo "exit $?"; tail -3 /tmp/seed_demo_mut.log | cut -c1-300)
echo "== repo test suite with the change"; (cd "$WT" && PYTHONPATH="$WT" /venv/bin/python -m pytest -q -p no:cacheprovider --timeout=900 --continue-on-collection-errors 2>&1 | tail -1)
cd /verif
for c in "$@"; do
  echo "== check $c"; LADIM2_REPO="$WT" ./check "$c" --no-evidence ${TIER:+--tier $TIER} 2>&1 | grep -E "^\[|VIOLATION|what:|INCONCLUSIVE|HARNESS|KNOWN" | head -${LINES_MAX:-5} | cut -c1-330
done
git -C /repo worktree remove --force "$WT"
