"""debug: run one case in-process.  usage: PYTHONPATH=/verif /venv/bin/python tools/dbg.py C04 /tmp/c04.json <index>"""
import importlib, json, sys, tempfile, shutil
from pathlib import Path
from vmon import env
env.bootstrap()
prop, f, idx = sys.argv[1], sys.argv[2], int(sys.argv[3])
d = json.load(open(f))
case = d["cases"][idx] if "cases" in d else d["case"]
mod = importlib.import_module(f"vmon.props.{prop}")
wd = Path(tempfile.mkdtemp(prefix="dbg_"))
print(json.dumps(case)[:3000])
r = mod.run_case(case, wd)
print(json.dumps(r, indent=1)[:6000])
if len(sys.argv) > 4:
    print("kept", wd)
else:
    shutil.rmtree(wd)
